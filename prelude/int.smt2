; INT-model prelude. Machine integers are mathematical integers with explicit ranges.
(define-fun W () Int 18446744073709551616)
(define-fun M () Int 12980742146337069071326240823050239)
(define-fun B110 () Int 1298074214633706907132624082305024)
(define-fun BIAS () Int 6176)
(declare-const emptyArr (Array Int Int))
(define-fun pow2 ((n Int)) Int
  (ite (<= n 0) 1 (ite (= n 1) 2 (ite (= n 2) 4 (ite (= n 3) 8 (ite (= n 4) 16 (ite (= n 5) 32 (ite (= n 6) 64 (ite (= n 7) 128 (ite (= n 8) 256 (ite (= n 9) 512 (ite (= n 10) 1024 (ite (= n 11) 2048 (ite (= n 12) 4096 (ite (= n 13) 8192 (ite (= n 14) 16384 (ite (= n 15) 32768 (ite (= n 16) 65536 (ite (= n 17) 131072 (ite (= n 18) 262144 (ite (= n 19) 524288 (ite (= n 20) 1048576 (ite (= n 21) 2097152 (ite (= n 22) 4194304 (ite (= n 23) 8388608 (ite (= n 24) 16777216 (ite (= n 25) 33554432 (ite (= n 26) 67108864 (ite (= n 27) 134217728 (ite (= n 28) 268435456 (ite (= n 29) 536870912 (ite (= n 30) 1073741824 (ite (= n 31) 2147483648 (ite (= n 32) 4294967296 (ite (= n 33) 8589934592 (ite (= n 34) 17179869184 (ite (= n 35) 34359738368 (ite (= n 36) 68719476736 (ite (= n 37) 137438953472 (ite (= n 38) 274877906944 (ite (= n 39) 549755813888 (ite (= n 40) 1099511627776 (ite (= n 41) 2199023255552 (ite (= n 42) 4398046511104 (ite (= n 43) 8796093022208 (ite (= n 44) 17592186044416 (ite (= n 45) 35184372088832 (ite (= n 46) 70368744177664 (ite (= n 47) 140737488355328 (ite (= n 48) 281474976710656 (ite (= n 49) 562949953421312 (ite (= n 50) 1125899906842624 (ite (= n 51) 2251799813685248 (ite (= n 52) 4503599627370496 (ite (= n 53) 9007199254740992 (ite (= n 54) 18014398509481984 (ite (= n 55) 36028797018963968 (ite (= n 56) 72057594037927936 (ite (= n 57) 144115188075855872 (ite (= n 58) 288230376151711744 (ite (= n 59) 576460752303423488 (ite (= n 60) 1152921504606846976 (ite (= n 61) 2305843009213693952 (ite (= n 62) 4611686018427387904 (ite (= n 63) 9223372036854775808 (ite (= n 64) 18446744073709551616 (ite (= n 65) 36893488147419103232 (ite (= n 66) 73786976294838206464 (ite (= n 67) 147573952589676412928 (ite (= n 68) 295147905179352825856 (ite (= n 69) 590295810358705651712 (ite (= n 70) 1180591620717411303424 (ite (= n 71) 2361183241434822606848 (ite (= n 72) 4722366482869645213696 (ite (= n 73) 9444732965739290427392 (ite (= n 74) 18889465931478580854784 (ite (= n 75) 37778931862957161709568 (ite (= n 76) 75557863725914323419136 (ite (= n 77) 151115727451828646838272 (ite (= n 78) 302231454903657293676544 (ite (= n 79) 604462909807314587353088 (ite (= n 80) 1208925819614629174706176 (ite (= n 81) 2417851639229258349412352 (ite (= n 82) 4835703278458516698824704 (ite (= n 83) 9671406556917033397649408 (ite (= n 84) 19342813113834066795298816 (ite (= n 85) 38685626227668133590597632 (ite (= n 86) 77371252455336267181195264 (ite (= n 87) 154742504910672534362390528 (ite (= n 88) 309485009821345068724781056 (ite (= n 89) 618970019642690137449562112 (ite (= n 90) 1237940039285380274899124224 (ite (= n 91) 2475880078570760549798248448 (ite (= n 92) 4951760157141521099596496896 (ite (= n 93) 9903520314283042199192993792 (ite (= n 94) 19807040628566084398385987584 (ite (= n 95) 39614081257132168796771975168 (ite (= n 96) 79228162514264337593543950336 (ite (= n 97) 158456325028528675187087900672 (ite (= n 98) 316912650057057350374175801344 (ite (= n 99) 633825300114114700748351602688 (ite (= n 100) 1267650600228229401496703205376 (ite (= n 101) 2535301200456458802993406410752 (ite (= n 102) 5070602400912917605986812821504 (ite (= n 103) 10141204801825835211973625643008 (ite (= n 104) 20282409603651670423947251286016 (ite (= n 105) 40564819207303340847894502572032 (ite (= n 106) 81129638414606681695789005144064 (ite (= n 107) 162259276829213363391578010288128 (ite (= n 108) 324518553658426726783156020576256 (ite (= n 109) 649037107316853453566312041152512 (ite (= n 110) 1298074214633706907132624082305024 (ite (= n 111) 2596148429267413814265248164610048 (ite (= n 112) 5192296858534827628530496329220096 (ite (= n 113) 10384593717069655257060992658440192 (ite (= n 114) 20769187434139310514121985316880384 (ite (= n 115) 41538374868278621028243970633760768 (ite (= n 116) 83076749736557242056487941267521536 (ite (= n 117) 166153499473114484112975882535043072 (ite (= n 118) 332306998946228968225951765070086144 (ite (= n 119) 664613997892457936451903530140172288 (ite (= n 120) 1329227995784915872903807060280344576 (ite (= n 121) 2658455991569831745807614120560689152 (ite (= n 122) 5316911983139663491615228241121378304 (ite (= n 123) 10633823966279326983230456482242756608 (ite (= n 124) 21267647932558653966460912964485513216 (ite (= n 125) 42535295865117307932921825928971026432 (ite (= n 126) 85070591730234615865843651857942052864 (ite (= n 127) 170141183460469231731687303715884105728 340282366920938463463374607431768211456)))))))))))))))))))))))))))))))))))))))))))))))))))))))))))))))))))))))))))))))))))))))))))))))))))))))))))))))))))))))))))))))))
; exact real scaling: rs(v, e) denotes v / 10^e. Uninterpreted; instances of its
; axioms (theorems of real arithmetic, see prelude/Axioms.lean) are added per obligation.
(declare-fun rs (Real Int) Real)
; Decimal observers (IEEE 754-2008 BID decoder); defined in the BV prelude, uninterpreted here.
; Facts about them enter only through exported lemmas proved in BV mode.
(declare-fun special (Int Int) Bool)
(declare-fun isnan (Int Int) Bool)
(declare-fun isinf (Int Int) Bool)
(declare-fun sign (Int Int) Bool)
(declare-fun coef (Int Int) Int)
(declare-fun bexp (Int Int) Int)
; ---- correct rounding as a checkable predicate (DESIGN.md section 4)
; sticky pair (digit, trunc): x = sig + (digit + g)/10 with G(trunc, g).
; For trunc = -1 (value just below) the deficit is less than half a guard-digit unit: every caller
; that sets trunc = -1 divides at least two further digits away before rounding (see reduce128).
(define-fun G ((t Int) (g Real)) Bool
  (and (=> (= t 0) (= g 0.0)) (=> (= t 1) (and (< 0.0 g) (< g 1.0))) (=> (= t (- 1)) (and (< (- 0.5) g) (< g 0.0)))))
(define-fun RS ((x Real) (sig Int) (trunc Int) (digit Int)) Bool
  (and (<= 0 digit) (<= digit 9) (<= (- 1) trunc) (<= trunc 1) (<= 0 sig)
       (G trunc (- (* 10.0 (- x (to_real sig))) (to_real digit)))))
(define-fun even ((c Int)) Bool (= (mod c 2) 0))
; x: exact magnitude in units of 10^e (e = biased exponent, unbounded above); c: candidate coefficient
(define-fun Down ((x Real) (c Int) (e Int)) Bool
  (and (<= (to_real c) x) (< x (to_real (+ c 1))) (or (= x (to_real c)) (= e 0) (>= c B110))))
(define-fun Up ((x Real) (c Int) (e Int)) Bool
  (and (< (to_real (- c 1)) x) (<= x (to_real c)) (or (= x (to_real c)) (= e 0) (> (* 10.0 x) (to_real M)))))
(define-fun NearDown ((x Real) (c Int) (e Int) (away Bool)) Bool
  (and (Down x c e) (or (< (- x (to_real c)) 0.5) (and (= (- x (to_real c)) 0.5) (not away) (even c)))))
(define-fun NearUp ((x Real) (c Int) (e Int) (away Bool)) Bool
  (and (Up x c e)
       (ite (and (= c B110) (> e 0))
            (or (< (- (to_real c) x) 0.05) (and (= (- (to_real c) x) 0.05) (or away (even c))))
            (or (< (- (to_real c) x) 0.5) (and (= (- (to_real c) x) 0.5) (or away (even c)))))))
(define-fun Near ((x Real) (c Int) (e Int) (away Bool)) Bool (or (NearDown x c e away) (NearUp x c e away)))
(define-fun RndOK ((rm Int) (neg Bool) (x Real) (c Int) (e Int)) Bool
  (and (<= 0 c) (<= c M) (>= e 0)
       (ite (= rm 0) (Near x c e false)
       (ite (= rm 1) (Near x c e true)
       (ite (= rm 2) (Down x c e)
       (ite (= rm 3) (Up x c e)
       (ite (= rm 4) (ite neg (Up x c e) (Down x c e))
                     (ite neg (Down x c e) (Up x c e)))))))))
; quantisation at a fixed exponent (Round/Ceil/Floor): no finer-grid clause
(define-fun QDown ((x Real) (c Int)) Bool (and (<= (to_real c) x) (< x (to_real (+ c 1)))))
(define-fun QUp ((x Real) (c Int)) Bool (and (< (to_real (- c 1)) x) (<= x (to_real c))))
(define-fun QNear ((x Real) (c Int) (away Bool)) Bool
  (or (< (- x (to_real c)) 0.5) (= x (to_real c)) (and (= (- x (to_real c)) 0.5) (not away) (even c)))
  )
(define-fun QNearOK ((x Real) (c Int) (away Bool)) Bool
  (and (< (- x (to_real c)) 1.0) (< (- (to_real c) x) 1.0)
       (or (and (<= (to_real c) x) (or (< (- x (to_real c)) 0.5) (and (= (- x (to_real c)) 0.5) (not away) (even c))))
           (and (<= x (to_real c)) (or (< (- (to_real c) x) 0.5) (and (= (- (to_real c) x) 0.5) (or away (even c))))))))
(define-fun QuantOK ((rm Int) (neg Bool) (x Real) (c Int)) Bool
  (and (<= 0 c)
       (ite (= rm 0) (QNearOK x c false)
       (ite (= rm 1) (QNearOK x c true)
       (ite (= rm 2) (QDown x c)
       (ite (= rm 3) (QUp x c)
       (ite (= rm 4) (ite neg (QUp x c) (QDown x c))
                     (ite neg (QDown x c) (QUp x c)))))))))
; TH: x = sig + theta with theta = 0 / in (0,1) / in (-1,0) according to trunc (no guard digit extracted yet)
(define-fun TH ((x Real) (sig Int) (t Int)) Bool
  (and (<= (- 1) t) (<= t 1) (<= 0 sig)
       (=> (= t 0) (= x (to_real sig)))
       (=> (= t 1) (and (< (to_real sig) x) (< x (to_real (+ sig 1)))))
       (=> (= t (- 1)) (and (< (to_real (- sig 1)) x) (< x (to_real sig))))))
; Ovf(rm, neg, x): with x the exact magnitude in units of 10^12287-bias (the largest exponent), the
; rounded result exceeds the largest finite Decimal M x 10^6111.
(define-fun Ovf ((rm Int) (neg Bool) (x Real)) Bool
  (ite (<= rm 1) (>= x (+ (to_real M) 0.5))
  (ite (= rm 2) (>= x (to_real (+ M 1)))
  (ite (= rm 3) (> x (to_real M))
  (ite (= rm 4) (ite neg (> x (to_real M)) (>= x (to_real (+ M 1))))
                (ite neg (>= x (to_real (+ M 1))) (> x (to_real M))))))))
; p10(n) = 10^n for 0 <= n <= 78 (table)
(define-fun p10 ((n Int)) Int
  (ite (< n 0) 1 (ite (= n 0) 1 (ite (= n 1) 10 (ite (= n 2) 100 (ite (= n 3) 1000 (ite (= n 4) 10000 (ite (= n 5) 100000 (ite (= n 6) 1000000 (ite (= n 7) 10000000 (ite (= n 8) 100000000 (ite (= n 9) 1000000000 (ite (= n 10) 10000000000 (ite (= n 11) 100000000000 (ite (= n 12) 1000000000000 (ite (= n 13) 10000000000000 (ite (= n 14) 100000000000000 (ite (= n 15) 1000000000000000 (ite (= n 16) 10000000000000000 (ite (= n 17) 100000000000000000 (ite (= n 18) 1000000000000000000 (ite (= n 19) 10000000000000000000 (ite (= n 20) 100000000000000000000 (ite (= n 21) 1000000000000000000000 (ite (= n 22) 10000000000000000000000 (ite (= n 23) 100000000000000000000000 (ite (= n 24) 1000000000000000000000000 (ite (= n 25) 10000000000000000000000000 (ite (= n 26) 100000000000000000000000000 (ite (= n 27) 1000000000000000000000000000 (ite (= n 28) 10000000000000000000000000000 (ite (= n 29) 100000000000000000000000000000 (ite (= n 30) 1000000000000000000000000000000 (ite (= n 31) 10000000000000000000000000000000 (ite (= n 32) 100000000000000000000000000000000 (ite (= n 33) 1000000000000000000000000000000000 (ite (= n 34) 10000000000000000000000000000000000 (ite (= n 35) 100000000000000000000000000000000000 (ite (= n 36) 1000000000000000000000000000000000000 (ite (= n 37) 10000000000000000000000000000000000000 (ite (= n 38) 100000000000000000000000000000000000000 (ite (= n 39) 1000000000000000000000000000000000000000 (ite (= n 40) 10000000000000000000000000000000000000000 (ite (= n 41) 100000000000000000000000000000000000000000 (ite (= n 42) 1000000000000000000000000000000000000000000 (ite (= n 43) 10000000000000000000000000000000000000000000 (ite (= n 44) 100000000000000000000000000000000000000000000 (ite (= n 45) 1000000000000000000000000000000000000000000000 (ite (= n 46) 10000000000000000000000000000000000000000000000 (ite (= n 47) 100000000000000000000000000000000000000000000000 (ite (= n 48) 1000000000000000000000000000000000000000000000000 (ite (= n 49) 10000000000000000000000000000000000000000000000000 (ite (= n 50) 100000000000000000000000000000000000000000000000000 (ite (= n 51) 1000000000000000000000000000000000000000000000000000 (ite (= n 52) 10000000000000000000000000000000000000000000000000000 (ite (= n 53) 100000000000000000000000000000000000000000000000000000 (ite (= n 54) 1000000000000000000000000000000000000000000000000000000 (ite (= n 55) 10000000000000000000000000000000000000000000000000000000 (ite (= n 56) 100000000000000000000000000000000000000000000000000000000 (ite (= n 57) 1000000000000000000000000000000000000000000000000000000000 (ite (= n 58) 10000000000000000000000000000000000000000000000000000000000 (ite (= n 59) 100000000000000000000000000000000000000000000000000000000000 (ite (= n 60) 1000000000000000000000000000000000000000000000000000000000000 (ite (= n 61) 10000000000000000000000000000000000000000000000000000000000000 (ite (= n 62) 100000000000000000000000000000000000000000000000000000000000000 (ite (= n 63) 1000000000000000000000000000000000000000000000000000000000000000 (ite (= n 64) 10000000000000000000000000000000000000000000000000000000000000000 (ite (= n 65) 100000000000000000000000000000000000000000000000000000000000000000 (ite (= n 66) 1000000000000000000000000000000000000000000000000000000000000000000 (ite (= n 67) 10000000000000000000000000000000000000000000000000000000000000000000 (ite (= n 68) 100000000000000000000000000000000000000000000000000000000000000000000 (ite (= n 69) 1000000000000000000000000000000000000000000000000000000000000000000000 (ite (= n 70) 10000000000000000000000000000000000000000000000000000000000000000000000 (ite (= n 71) 100000000000000000000000000000000000000000000000000000000000000000000000 (ite (= n 72) 1000000000000000000000000000000000000000000000000000000000000000000000000 (ite (= n 73) 10000000000000000000000000000000000000000000000000000000000000000000000000 (ite (= n 74) 100000000000000000000000000000000000000000000000000000000000000000000000000 (ite (= n 75) 1000000000000000000000000000000000000000000000000000000000000000000000000000 (ite (= n 76) 10000000000000000000000000000000000000000000000000000000000000000000000000000 (ite (= n 77) 100000000000000000000000000000000000000000000000000000000000000000000000000000 1000000000000000000000000000000000000000000000000000000000000000000000000000000))))))))))))))))))))))))))))))))))))))))))))))))))))))))))))))))))))))))))))))))
; cmpmag(cd, ed, co, eo) = sign of cd*10^ed - co*10^eo for coefficients 0 <= cd, co < 10^38:
; the larger exponent's coefficient is scaled by the exact power of ten (table p10) when the gap is
; at most 38; beyond that the operand with the larger exponent is larger (both coefficients nonzero).
(define-fun cmpmag ((cd Int) (ed Int) (co Int) (eo Int)) Int
  (ite (= cd 0) (ite (= co 0) 0 (- 1))
  (ite (= co 0) 1
  (ite (>= ed eo)
       (ite (> (- ed eo) 38) 1
            (ite (> (* cd (p10 (- ed eo))) co) 1 (ite (= (* cd (p10 (- ed eo))) co) 0 (- 1))))
       (ite (> (- eo ed) 38) (- 1)
            (ite (> (* co (p10 (- eo ed))) cd) (- 1) (ite (= (* co (p10 (- eo ed))) cd) 0 1)))))))
; shifts on spec integers (dual definition in the BV prelude: bvshl / bvlshr on 256 bits)
(define-fun shl ((x Int) (o Int)) Int (* x (pow2 o)))
(define-fun shr ((x Int) (o Int)) Int (div x (pow2 o)))
; normal form of a finite non-zero Decimal: exponent closest to zero that still holds all digits
(define-fun NF ((c Int) (e Int)) Bool
  (or (= e 6176) (and (> e 6176) (> (* 10 c) M)) (and (< e 6176) (not (= (mod c 10) 0)))))
