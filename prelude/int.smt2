; INT-model prelude. Machine integers are mathematical integers with explicit ranges.
(define-fun W () Int 18446744073709551616)
(define-fun M () Int 12980742146337069071326240823050239)
(define-fun B110 () Int 1298074214633706907132624082305024)
(define-fun BIAS () Int 6176)
(declare-const emptyArr (Array Int Int))
(define-fun pow2 ((n Int)) Int
  (ite (<= n 0) 1 (ite (= n 1) 2 (ite (= n 2) 4 (ite (= n 3) 8 (ite (= n 4) 16 (ite (= n 5) 32 (ite (= n 6) 64 (ite (= n 7) 128
  (ite (= n 8) 256 (ite (= n 9) 512 (ite (= n 10) 1024 (ite (= n 11) 2048 (ite (= n 12) 4096 (ite (= n 13) 8192 (ite (= n 14) 16384 (ite (= n 15) 32768
  (ite (= n 16) 65536 (ite (= n 17) 131072 (ite (= n 18) 262144 (ite (= n 19) 524288 (ite (= n 20) 1048576 (ite (= n 21) 2097152 (ite (= n 22) 4194304 (ite (= n 23) 8388608
  (ite (= n 24) 16777216 (ite (= n 25) 33554432 (ite (= n 26) 67108864 (ite (= n 27) 134217728 (ite (= n 28) 268435456 (ite (= n 29) 536870912 (ite (= n 30) 1073741824 (ite (= n 31) 2147483648
  (ite (= n 32) 4294967296 (ite (= n 33) 8589934592 (ite (= n 34) 17179869184 (ite (= n 35) 34359738368 (ite (= n 36) 68719476736 (ite (= n 37) 137438953472 (ite (= n 38) 274877906944 (ite (= n 39) 549755813888
  (ite (= n 40) 1099511627776 (ite (= n 41) 2199023255552 (ite (= n 42) 4398046511104 (ite (= n 43) 8796093022208 (ite (= n 44) 17592186044416 (ite (= n 45) 35184372088832 (ite (= n 46) 70368744177664 (ite (= n 47) 140737488355328
  (ite (= n 48) 281474976710656 (ite (= n 49) 562949953421312 (ite (= n 50) 1125899906842624 (ite (= n 51) 2251799813685248 (ite (= n 52) 4503599627370496 (ite (= n 53) 9007199254740992 (ite (= n 54) 18014398509481984 (ite (= n 55) 36028797018963968
  (ite (= n 56) 72057594037927936 (ite (= n 57) 144115188075855872 (ite (= n 58) 288230376151711744 (ite (= n 59) 576460752303423488 (ite (= n 60) 1152921504606846976 (ite (= n 61) 2305843009213693952 (ite (= n 62) 4611686018427387904 (ite (= n 63) 9223372036854775808
  18446744073709551616)))))))))))))))))))))))))))))))))))))))))))))))))))))))))))))))))
; exact real scaling: rs(v, e) denotes v / 10^e. Uninterpreted; instances of its
; axioms (theorems of real arithmetic, see prelude/Axioms.lean) are added per obligation.
(declare-fun rs (Real Int) Real)
; Decimal observers (IEEE 754-2008 BID decoder); defined in the BV prelude, uninterpreted here.
; Facts about them enter only through exported lemmas proved in BV mode.
(declare-fun special (Int Int) Bool)
(declare-fun isnan (Int Int) Bool)
(declare-fun isinf (Int Int) Bool)
(declare-fun sign (Int Int) Bool)
(declare-fun coef (Int Int) Int)
(declare-fun bexp (Int Int) Int)
