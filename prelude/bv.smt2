; BV-model prelude. Machine integers are bit-vectors of their width; spec-level
; integers are 256-bit signed bit-vectors (machine values zero-/sign-extended).
(define-fun W () (_ BitVec 256) (_ bv18446744073709551616 256))
(define-fun M () (_ BitVec 256) (_ bv12980742146337069071326240823050239 256))
(define-fun B110 () (_ BitVec 256) (_ bv1298074214633706907132624082305024 256))
(define-fun BIAS () (_ BitVec 256) (_ bv6176 256))
(declare-const emptyArr (Array Int Int))
; ---- independent BID decoder, written from IEEE 754-2008 section 3.5.2 for k = 128
; (w = 12 so the combination field G has w+5 = 17 bits: hi[62:46]; t = 110 trailing bits)
; sign = bit 127 = hi[63]
(define-fun sign ((lo (_ BitVec 64)) (hi (_ BitVec 64))) Bool (= ((_ extract 63 63) hi) #b1))
; G0..G4 = hi[62:58]. 11110 -> infinity, 11111 -> NaN
(define-fun special ((lo (_ BitVec 64)) (hi (_ BitVec 64))) Bool (= ((_ extract 62 59) hi) #b1111))
(define-fun isinf ((lo (_ BitVec 64)) (hi (_ BitVec 64))) Bool (= ((_ extract 62 58) hi) #b11110))
(define-fun isnan ((lo (_ BitVec 64)) (hi (_ BitVec 64))) Bool (= ((_ extract 62 58) hi) #b11111))
; form 2 when G0G1 = 11 (and not special): exponent = G2..G(w+3) = hi[60:47], significand = (8 + G(w+4)) followed by T,
; i.e. the four leading bits 100x : bit 113 set, bit 112.. clear, bit 110 = hi[46]
(define-fun form2 ((lo (_ BitVec 64)) (hi (_ BitVec 64))) Bool (and (= ((_ extract 62 61) hi) #b11) (not (special lo hi))))
; form 1: exponent = G0..G(w+1) = hi[62:49], significand = G(w+2)G(w+3)G(w+4) (hi[48:46]) followed by T (hi[45:0] lo)
(define-fun bexp ((lo (_ BitVec 64)) (hi (_ BitVec 64))) (_ BitVec 256)
  (ite (form2 lo hi) ((_ zero_extend 242) ((_ extract 60 47) hi)) ((_ zero_extend 242) ((_ extract 62 49) hi))))
(define-fun coef ((lo (_ BitVec 64)) (hi (_ BitVec 64))) (_ BitVec 256)
  (ite (form2 lo hi)
       ((_ zero_extend 142) (concat #b100 ((_ extract 46 0) hi) lo))
       ((_ zero_extend 143) (concat ((_ extract 48 0) hi) lo))))
(define-fun pow2 ((n (_ BitVec 256))) (_ BitVec 256) (bvshl (_ bv1 256) n))
(define-fun shl ((x (_ BitVec 256)) (o (_ BitVec 256))) (_ BitVec 256) (bvshl x o))
(define-fun shr ((x (_ BitVec 256)) (o (_ BitVec 256))) (_ BitVec 256) (bvlshr x o))
