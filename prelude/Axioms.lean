/-
Axioms of the scaling function used in the contracts: rs v e = v / 10^e
(v real, e integer). The verification-condition generator instantiates exactly
these statements (and nothing else) for the `rs` terms of an obligation.
They are theorems of real arithmetic; this file states and proves them against
Mathlib so that the trusted base does not contain unproved arithmetic.
(Not run by the quick checks: a cold `import Mathlib` takes minutes.)
-/
import Mathlib

noncomputable def rs (v : ℝ) (e : ℤ) : ℝ := v / (10 : ℝ) ^ e

theorem rs_pos (v : ℝ) (e : ℤ) (h : 0 < v) : 0 < rs v e := by
  unfold rs; positivity

theorem rs_zero (e : ℤ) : rs 0 e = 0 := by
  unfold rs; simp

theorem rs_neg (v : ℝ) (e : ℤ) (h : v < 0) : rs v e < 0 := by
  unfold rs
  have : (0 : ℝ) < (10 : ℝ) ^ e := by positivity
  exact div_neg_of_neg_of_pos h this

/-- step: rs v e = 10^k * rs v (e + k) -/
theorem rs_step (v : ℝ) (e : ℤ) (k : ℕ) : rs v e = (10 : ℝ) ^ k * rs v (e + k) := by
  unfold rs
  have h10 : (10 : ℝ) ≠ 0 := by norm_num
  rw [zpow_add₀ h10, zpow_natCast]
  field_simp

/-- monotonicity in the exponent for non-negative values -/
theorem rs_mono (v : ℝ) (e₁ e₂ : ℤ) (k : ℕ) (hv : 0 ≤ v) (h : e₁ + k ≤ e₂) :
    (10 : ℝ) ^ k * rs v e₂ ≤ rs v e₁ := by
  obtain ⟨j, rfl⟩ : ∃ j : ℕ, e₂ = e₁ + k + j := ⟨(e₂ - e₁ - k).toNat, by omega⟩
  have h1 := rs_step v e₁ (k + j)
  rw [h1]
  have : rs v (e₁ + ↑(k + j)) = rs v (e₁ + ↑k + ↑j) := by push_cast; ring_nf
  rw [this, pow_add]
  have hr : 0 ≤ rs v (e₁ + ↑k + ↑j) := by unfold rs; positivity
  have hj : (1 : ℝ) ≤ (10 : ℝ) ^ j := one_le_pow₀ (by norm_num)
  have hk : (0 : ℝ) ≤ (10 : ℝ) ^ k := by positivity
  calc (10 : ℝ) ^ k * rs v (e₁ + ↑k + ↑j)
      = (10 : ℝ) ^ k * (1 * rs v (e₁ + ↑k + ↑j)) := by ring
    _ ≤ (10 : ℝ) ^ k * ((10 : ℝ) ^ j * rs v (e₁ + ↑k + ↑j)) := by
        apply mul_le_mul_of_nonneg_left _ hk
        exact mul_le_mul_of_nonneg_right hj hr
    _ = (10 : ℝ) ^ k * (10 : ℝ) ^ j * rs v (e₁ + ↑k + ↑j) := by ring

/-- order preservation in the value -/
theorem rs_lt_iff (v w : ℝ) (e : ℤ) : v < w ↔ rs v e < rs w e := by
  unfold rs
  have : (0 : ℝ) < (10 : ℝ) ^ e := by positivity
  exact (div_lt_div_iff_of_pos_right this).symm

theorem rs_eq_iff (v w : ℝ) (e : ℤ) : v = w ↔ rs v e = rs w e := by
  unfold rs
  have : (10 : ℝ) ^ e ≠ 0 := by positivity
  constructor
  · intro h; rw [h]
  · intro h; field_simp at h; exact h

/-- linearity in the value (used syntactically by the generator) -/
theorem rs_add (v w : ℝ) (e : ℤ) : rs (v + w) e = rs v e + rs w e := by
  unfold rs; ring

theorem rs_sub (v w : ℝ) (e : ℤ) : rs (v - w) e = rs v e - rs w e := by
  unfold rs; ring
