#!/usr/bin/env python3
# prints the lemma applications that close a round trip: at the anchor, v is RndOK for the exact value V of d
# (coefficient C at exponent E) => v denotes V. Usage: rt_block.py '<anchor text>' <d> <v> [neg-expr]
import sys
anchor, d, v = sys.argv[1:4]
neg = sys.argv[4] if len(sys.argv) > 4 else 'sign(%s)' % d
R = 'before "%s"' % anchor
print('''//@ uses order=file
//@ define E = bexp({d})
//@ define C = coef({d})
//@ define XE = bexp({v})
//@ define XC = coef({v})
//@ define RM = DefaultRoundingMode
//@ define FIN = (!special({d}) && !special({v}) && C != 0)
//@ define LOW = (FIN && XE <= E)
//@ define HIGH = (FIN && XE > E)
//@ apply {R} when {{LOW}}: rs_pw10n(V, XE, E - XE)
//@ apply {R} when {{LOW}}: pw10n_pos(E - XE)
//@ assert {R}: LOW ==> rs(V, XE) == real(C * pw10(E - XE))
//@ apply {R} when {{LOW}}: rnd_exact_int(RM, {neg}, C * pw10(E - XE), XC, XE)
//@ assert {R}: LOW ==> rs(V, XE) == XC
//@ apply {R} when {{HIGH}}: rs_pw10n(V, E, XE - E)
//@ apply {R} when {{HIGH}}: pw10n_step1(XE - E)
//@ apply {R} when {{HIGH}}: pw10n_pos(XE - E - 1)
//@ apply {R} when {{HIGH}}: scale_le(rs(V, XE), pw10(XE - E), C)
//@ apply {R} when {{HIGH}}: rnd_exact_frac(RM, {neg}, rs(V, XE), C, XC, XE)
//@ assert {R}: HIGH ==> rs(V, XE) == XC'''.format(R=R, d=d, v=v, neg=neg))
