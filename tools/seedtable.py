#!/usr/bin/env python3
"""Regenerates the table of section 0.4 of DESIGN.md from seeded/*/meta.json and verif_result.json."""
import json, os, re, glob
root = os.path.dirname(os.path.dirname(os.path.abspath(__file__)))
rows = []
det = 0
names = sorted(os.listdir(os.path.join(root, 'seeded')), key=lambda n: (n.split('_')[0], int(n.split('_')[1])))
missed = []
for n in names:
    d = os.path.join(root, 'seeded', n)
    try:
        meta = json.load(open(os.path.join(d, 'meta.json'), errors='replace'))
    except Exception:
        meta = {}
    res = json.load(open(os.path.join(d, 'verif_result.json')))
    what = str(meta.get('what') or meta.get('description') or meta.get('summary') or '')
    what = re.sub(r'\s+', ' ', what).replace('|', '/')[:150]
    fv = res.get('first_violations') or []
    ob = '-'
    if fv:
        m = re.search(r'obligation=(\S+)', fv[0])
        ob = '`' + (m.group(1) if m else fv[0][:80]) + '`'
    if res.get('check_detects'):
        det += 1
    else:
        missed.append(n)
        ob = '**not reported**'
    rp = 'confirmed on real code' if res.get('confirmed_by_replay_on_real_code') else '-'
    rows.append('| %s | %s | %s | %s |' % (n, what, ob, rp))
table = '| seed | what | first reported obligation | replay |\n|------|------|---------------------------|--------|\n' + '\n'.join(rows) + '\n'
p = os.path.join(root, 'DESIGN.md')
s = open(p).read()
a = s.index('| seed | what | first reported obligation | replay |')
b = s.index('\n\n', a)
s = s[:a] + table.rstrip('\n') + s[b:]
s = re.sub(r'(### 0\.4[^\n]*\n\n)\d+ changes', r'\g<1>%d changes' % len(names), s)
s = re.sub(r'fails its own demonstration test\. \d+ are reported', 'fails its own demonstration test. %d are reported' % det, s)
open(p, 'w').write(s)
print(len(names), 'seeds,', det, 'detected; missed:', missed)
