#!/bin/bash
# Must-fail self-test: every seeded change in seeded/<name>/ (patch.diff + verif_result.json) is applied to a
# scratch clone of /repo and the check of its property must report a violation (seeds recorded as not
# detected must stay undetected or become detected; a detected seed that is no longer reported is a
# regression of the machinery). Runs on a clone (VERIF_REPO), never touches /repo; evidence of these runs goes
# to work/selftest/. Usage: tools/selftest.sh [name-prefix]
set -u
cd /verif
export GOFLAGS=-mod=mod GOPROXY=off GOSUMDB=off GOTOOLCHAIN=local
clone=/tmp/selftest_repo_$$
git clone -q /repo $clone || exit 2
go build -o bin/govc ./cmd/govc || exit 2
pass=0; fail=0; total=0
for d in seeded/${1:-}*/; do
  n=$(basename $d)
  [ -f $d/patch.diff ] || continue
  p=${n%_*}
  expect=$(python3 -c "import json;print(json.load(open('$d/verif_result.json')).get('check_detects'))" 2>/dev/null)
  ( cd $clone && git apply /verif/$d/patch.diff ) || { echo "$n: patch does not apply"; continue; }
  out=$(VERIF_REPO=$clone VERIF_SELFTEST=$n ./bin/govc check -prop $p 2>&1 | grep -c '^VIOLATION')
  ( cd $clone && git checkout -q -- . )
  total=$((total+1))
  if [ "$out" -gt 0 ]; then got=True; else got=False; fi
  if [ "$expect" = "True" ] && [ "$got" = "False" ]; then echo "$n: REGRESSION (was detected, now silent)"; fail=$((fail+1)); else pass=$((pass+1)); echo "$n: detected=$got (recorded $expect)"; fi
done
rm -rf $clone
echo "selftest: $total seeds, $fail regressions"
[ $fail -eq 0 ]
