#!/bin/bash
# re-run every claimed check on the unchanged tree so that the committed evidence files come from clean runs
cd /verif
if [ -n "$(git -C /repo status --porcelain)" ]; then echo "/repo has uncommitted changes"; exit 2; fi
for p in $(python3 -c "import json; print(' '.join(c['property_id'] for c in json.load(open('MANIFEST.json'))['checks']))"); do
  ./bin/check $p | tail -1
done
