#!/bin/bash
# usage: seedtest.sh <seed-dir> <name> <property> -- confirms the seeded change (tests pass, demo fails with it and
# passes without it) in a scratch worktree, then runs our check against /repo with the patch applied and reverts.
set -u
src=$1; name=$2; prop=$3
export GOFLAGS=-mod=mod GOPROXY=off GOSUMDB=off GOTOOLCHAIN=local
wt=/tmp/seedwt_$$
git -C /repo worktree add -q --detach $wt HEAD || exit 2
res="{}"
( cd $wt && cp $src/demo_test.go zz_demo_test.go && go test -vet=off -count=1 -run TestSeededDemo . > /tmp/seed_clean_$$.txt 2>&1; echo "clean_demo_exit=$?" )
( cd $wt && git apply $src/patch.diff && go test -vet=off -count=1 -run TestSeededDemo . > /tmp/seed_mut_$$.txt 2>&1; echo "mutant_demo_exit=$?" )
( cd $wt && rm -f zz_demo_test.go && go build ./... && go test -vet=off -count=1 . 2>&1 | grep -E '^--- FAIL' | sort | tr '\n' ' '; echo " <- failing tests of the suite with the change" )
git -C /repo worktree remove --force $wt
# our check (on a scratch clone of /repo HEAD, so that /repo stays free for editing)
clone=/tmp/seedclone_$$
git clone -q /repo $clone || exit 2
git -C $clone apply $src/patch.diff || { echo "patch does not apply"; rm -rf $clone; exit 2; }
( cd /verif && VERIF_NOCACHE=1 VERIF_REPO=$clone VERIF_SELFTEST=$name ./bin/govc check -prop $prop > /tmp/seed_check_$$.txt 2>&1; echo "check_exit=$?" )
rm -rf $clone
cp /tmp/seed_check_$$.txt /tmp/seed_check.txt
grep -E "VIOLATION|^property" /tmp/seed_check.txt | cut -c1-220 | head -8
mkdir -p /verif/seeded/$name && cp $src/patch.diff $src/demo_test.go $src/meta.json /verif/seeded/$name/ 2>/dev/null
python3 - "$name" "$prop" $$ <<'PY'
import json,sys,re
name,prop,pid=sys.argv[1:4]
chk=open('/tmp/seed_check_%s.txt'%pid,errors='replace').read()
viol=[l for l in chk.split('\n') if l.startswith('VIOLATION')]
res={"checked_property":prop,
 "demo_on_unchanged_tree":"pass" if 'ok' in open('/tmp/seed_clean_%s.txt'%pid,errors='replace').read() else "FAIL",
 "demo_with_change":"fail" if 'FAIL' in open('/tmp/seed_mut_%s.txt'%pid,errors='replace').read() else "PASS(!)",
 "check_detects":len(viol)>0,
 "violations_reported":len(viol),
 "first_violations":[re.sub(r' replay=\S+','',v)[:200] for v in viol[:3]],
 "confirmed_by_replay_on_real_code":sum(1 for v in viol if not v.endswith('no-failing-input-found')),
 "how":"tools/seedtest2.sh: scratch worktree of /repo (demo test with and without the patch, full suite with the patch), then the patch applied to a scratch clone of /repo HEAD and govc check -prop <property> run on it (VERIF_REPO=<clone>, VERIF_NOCACHE=1), clone removed"}
json.dump(res,open('/verif/seeded/%s/verif_result.json'%name,'w'),indent=1)
print(json.dumps(res)[:300])
PY
