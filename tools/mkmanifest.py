#!/usr/bin/env python3
"""Regenerate MANIFEST.json from props_meta.json (single source of truth for claims)."""
import json, subprocess, sys
meta = json.load(open('/verif/props_meta.json'))
props = [json.loads(l) for l in open('/verif/properties.jsonl')]
hooks = subprocess.check_output("git -C /repo log --format=%H --grep='^verif hook'", shell=True, text=True).split()
m = {
 "version": 1,
 "setup_cmd": "cd /verif && export GOFLAGS=-mod=mod GOPROXY=off GOSUMDB=off GOTOOLCHAIN=local && go build -o bin/govc ./cmd/govc",
 "hooks": {"guard": "verif",
           "enable": "go/packages loads /repo with -tags=verif so that /repo/contracts_verif.go (package clause + //@ contract comments, no executable code) and /repo/clients_verif.go (composition clients: 20 unexported functions of two to eight lines that only call exported operations, never called themselves) are part of the analysed package; neither file is compiled into the library without the tag",
           "baseline_off_cmd": "cd /repo && GOFLAGS=-mod=mod GOPROXY=off GOSUMDB=off GOTOOLCHAIN=local go test -vet=off -count=1 -timeout 25m ./...",
           "source_commits": hooks, "add_only": True},
 "engines": [{"name": "govc", "path": "/verif/cmd/govc", "serves_properties": [p['id'] for p in props if meta.get(p['id'], {}).get('claimed')],
              "kind_free_text": "contract-based deductive verifier for a Go subset: go/ssa (NaiveForm) symbolic execution with loop cutting, INT (relational) and BV arithmetic models, contracts in //@ comments of /repo/contracts_verif.go, obligations discharged by z3 5.1.0 / cvc5 1.0 / z3 4.8.12"}],
 "checks": [], "notes": "Approach, per-property design, trusted base and findings: DESIGN.md. Claims are generated from props_meta.json by tools/mkmanifest.py.",
 "not_applicable": []}
for p in props:
    pid = p['id']
    e = meta.get(pid, {})
    if e.get('claimed'):
        m['checks'].append({
            "property_id": pid,
            "quick_cmd": f"bin/check {pid}",
            "thorough_cmd": f"bin/check {pid} --thorough",
            "evidence_file": f"/verif/evidence/{pid}.json",
            "replay_cmd_template": "cat {path}",
            "engine": "govc",
            "level_claimed": {"category": e.get('level', 'proof'), "text": e['level_text'], "design_ref": e.get('design_ref', 'DESIGN.md section 6 ' + pid)},
            "level_note": e['level_note'],
            "technique": e.get('technique', 'contract-based deductive verification (own VC generator over go/ssa, SMT-discharged)')})
    else:
        m['not_applicable'].append({"property_id": pid, "reason": e.get('na_reason', 'no check built yet')})
json.dump(m, open('/verif/MANIFEST.json', 'w'), indent=1)
try:
    import jsonschema
    jsonschema.validate(m, json.load(open('/root/.vp/MANIFEST.schema.json')))
    print("MANIFEST.json valid;", len(m['checks']), "checks,", len(m['not_applicable']), "not applicable")
except ImportError:
    print("jsonschema not available; not validated")
