package main

import (
	"bufio"
	"fmt"
	"os"
	"regexp"
	"strconv"
	"strings"
)

type Clause struct {
	Text string
	E    Expr
	Line int
	Name string // optional label
}

type LogicalVar struct {
	Name string
	Sort string // int, real, bool
}

type LoopSpec struct {
	Invariants []*Clause
	Decreases  *Clause
	Unroll     int
	Isolate    bool // restart the path condition at the loop head (the invariant must restate what is needed)
}

// CallArgSpec: see the callarg clause.
type CallArgSpec struct {
	Callee  string
	Ordinal int
	Clause  *Clause
}

type CallHint struct {
	Callee  string // e.g. reduce128
	Ordinal int    // 1-based; 0 = all
	Binds   map[string]*Clause
}

type Waiver struct {
	Kind   string // overflow, convrange, ...
	Text   string // snippet of the source line the instruction is on ("" = any)
	Reason string
	used   bool
}

type CutSpec struct {
	Text   string
	Ord    int
	Havoc  []string
	Clause *Clause
	used   bool
	SplitVar string
	SplitLo, SplitHi int
}

// ApplySpec: instantiate a lemma of the contract file at a program point: its hypotheses are
// proved there, its conclusion becomes available.
type ApplySpec struct {
	Text  string // anchor line text ("" when attached to a loop entry)
	Ord   int
	Loop  int // loop ordinal when attached to a loop entry (0 otherwise)
	Lemma string
	Args  []*Clause
	Line  int
	When  *Clause // optional guard: "apply before "text" when {cond}: lemma(..)" proves the hypotheses and assumes the conclusion only under cond
}

// Ghost state: specification-only integer variables. "ghost g int = e" declares g with its value at
// entry; "ghost before|after "text"#n: g = e" assigns it at a program point. Ghost variables are
// part of the symbolic state (merged at joins, havocked at the head of a loop that assigns them) and
// never influence the executable code.
type GhostVar struct {
	Name string
	Init *Clause
	Line int
}

type GhostSet struct {
	Where  string
	Text   string
	Ord    int
	Name   string
	Clause *Clause
	Line   int
}

type AssertSpec struct {
	Where  string // "after" | "before"
	Text   string // snippet of source line
	Ord    int
	Clause *Clause
	Assume bool
}

type Contract struct {
	Func      string
	Mode      string
	Returns   []string
	Logical   []LogicalVar
	Requires  []*Clause
	Ensures   []*Clause
	Loops     map[int]*LoopSpec
	Calls     []*CallHint
	CallArgs  []*CallArgSpec
	Waivers   []*Waiver
	Panics    *Clause // panics exactly when (nil = never)
	HasPanics bool
	Props     []string
	Trusted   string // non-empty: contract is assumed, with this reason
	Asserts   []*AssertSpec
	Ghosts    []*GhostVar
	GhostSets []*GhostSet
	Split     *SplitSpec
	Line      int
	NoSafety  bool
	Uses      []string // axiom families to instantiate
	Assigns   []string
	Cuts      []*CutSpec
	Applies   []*ApplySpec
	Limits    []*CutSpec // scope restriction: paths reaching the anchor are outside the contract (every ensures guard is proved false there)
	Mentions  []*Clause
}

type SplitSpec struct {
	Var    string // local variable name
	Lo, Hi int
	Open   bool // additionally the two open-ended cases < Lo and > Hi (then no range obligation is needed)
}

type Lemma struct {
	Name   string
	Mode   string
	Vars   []LogicalVar // sorts: int real bool u64 decimal u128 ...
	Hyps   []*Clause
	Goal   *Clause
	Props  []string
	Line   int
	Export bool // becomes an axiom of the INT prelude
	// induction: the goal is proved for the variable Induct assuming the lemma (hypotheses => goal)
	// at Induct-1; InductFrom is a lower bound of Induct implied by the hypotheses (well-foundedness).
	Induct     string
	InductFrom *Clause
	Depth      int // unfolding depth of fold applications in this lemma (default 2)
}

// Fold: a recursive specification function over the first n elements of a byte sequence,
//   F(a, 0) = init;  F(a, n) = step with acc = F(a, n-1), c = a[n-1], n, and every other fold name G
//   standing for G(a, n-1).
// It is an uninterpreted function for the solver; the generator adds the unfolding at every
// application that occurs in an obligation (to depth 2).
type Fold struct {
	Name string
	Init *Clause
	Step *Clause
	Line int
}

type ContractFile struct {
	Funcs  map[string]*Contract
	Order  []string
	Lemmas []*Lemma
	Folds  []*Fold
}

var kwRe = regexp.MustCompile(`^(depth|ghost|induct|alias|fold|init|step|define|limit|apply|mention|cut|func|lemma|mode|returns|logical|requires|ensures|loop|callarg|call|waive|panics|props|trusted|assert|assume|split|nosafety|forall|hyp|holds|export|uses|assigns)\b`)

func parseContractFile(path string) (*ContractFile, error) {
	f, err := os.Open(path)
	if err != nil {
		return nil, err
	}
	defer f.Close()
	cf := &ContractFile{Funcs: map[string]*Contract{}}
	sc := bufio.NewScanner(f)
	sc.Buffer(make([]byte, 1<<20), 1<<20)
	type rawLine struct {
		text string
		line int
	}
	var items []rawLine
	ln := 0
	for sc.Scan() {
		ln++
		t := strings.TrimSpace(sc.Text())
		if !strings.HasPrefix(t, "//@") {
			continue
		}
		t = strings.TrimSpace(t[3:])
		if t == "" || strings.HasPrefix(t, "#") {
			continue
		}
		if kwRe.MatchString(t) {
			items = append(items, rawLine{t, ln})
		} else if len(items) > 0 {
			items[len(items)-1].text += " " + t
		} else {
			return nil, fmt.Errorf("%s:%d: continuation line without clause", path, ln)
		}
	}
	var cur *Contract
	var lem *Lemma
	var fold *Fold
	mkClause := func(text string, line int) (*Clause, error) {
		e, err := parseExpr(text)
		if err != nil {
			return nil, fmt.Errorf("%s:%d: %v", path, line, err)
		}
		return &Clause{Text: text, E: e, Line: line}, nil
	}
	macros := map[string]string{}
	var macroOrder []string
	for _, it := range items {
		kw := kwRe.FindString(it.text)
		rest := strings.TrimSpace(it.text[len(kw):])
		if kw == "func" || kw == "lemma" || kw == "fold" {
			macros = map[string]string{}
			macroOrder = nil
		} else if kw == "define" {
			m := regexp.MustCompile(`^([A-Za-z_][A-Za-z0-9_]*)\s*=\s*(.*)$`).FindStringSubmatch(rest)
			if m == nil {
				return nil, fmt.Errorf("%s:%d: bad define clause", path, it.line)
			}
			body := m[2]
			for _, name := range macroOrder {
				body = regexp.MustCompile(`\b`+name+`\b`).ReplaceAllString(body, "("+macros[name]+")")
			}
			macros[m[1]] = body
			macroOrder = append(macroOrder, m[1])
			continue
		} else {
			for _, name := range macroOrder {
				rest = regexp.MustCompile(`\b`+name+`\b`).ReplaceAllString(rest, "("+macros[name]+")")
			}
		}
		fail := func(format string, a ...interface{}) error {
			return fmt.Errorf("%s:%d: %s", path, it.line, fmt.Sprintf(format, a...))
		}
		switch kw {
		case "func":
			cur = &Contract{Func: rest, Mode: "int", Loops: map[int]*LoopSpec{}, Line: it.line}
			lem = nil
			fold = nil
			if _, dup := cf.Funcs[rest]; dup {
				return nil, fail("duplicate contract for %s", rest)
			}
			cf.Funcs[rest] = cur
			cf.Order = append(cf.Order, rest)
			continue
		case "lemma":
			lem = &Lemma{Name: rest, Mode: "int", Line: it.line}
			cur = nil
			fold = nil
			cf.Lemmas = append(cf.Lemmas, lem)
			continue
		case "alias":
			// alias new = existing: the same contract for another instantiation of a generic function
			parts := strings.SplitN(rest, "=", 2)
			if len(parts) != 2 {
				return nil, fail("bad alias clause")
			}
			nw, old := strings.TrimSpace(parts[0]), strings.TrimSpace(parts[1])
			oc, ok := cf.Funcs[old]
			if !ok {
				return nil, fail("alias of unknown contract %s", old)
			}
			if _, dup := cf.Funcs[nw]; dup {
				return nil, fail("duplicate contract for %s", nw)
			}
			cp := *oc
			cp.Func = nw
			cf.Funcs[nw] = &cp
			cf.Order = append(cf.Order, nw)
			cur, lem, fold = nil, nil, nil
			continue
		case "fold":
			fold = &Fold{Name: rest, Line: it.line}
			cur, lem = nil, nil
			cf.Folds = append(cf.Folds, fold)
			continue
		case "init", "step":
			if fold == nil {
				return nil, fail("clause %s outside fold", kw)
			}
			c, err := mkClause(rest, it.line)
			if err != nil {
				return nil, err
			}
			if kw == "init" {
				fold.Init = c
			} else {
				fold.Step = c
			}
			continue
		}
		if lem != nil {
			switch kw {
			case "mode":
				lem.Mode = rest
			case "forall":
				for _, part := range strings.Split(rest, ",") {
					fs := strings.Fields(part)
					if len(fs) != 2 {
						return nil, fail("bad forall %q", part)
					}
					lem.Vars = append(lem.Vars, LogicalVar{fs[0], fs[1]})
				}
			case "hyp":
				c, err := mkClause(rest, it.line)
				if err != nil {
					return nil, err
				}
				lem.Hyps = append(lem.Hyps, c)
			case "holds":
				c, err := mkClause(rest, it.line)
				if err != nil {
					return nil, err
				}
				if lem.Goal != nil {
					return nil, fail("lemma " + lem.Name + ": more than one holds clause (write one conjunction)")
				}
				lem.Goal = c
			case "props":
				lem.Props = strings.Fields(rest)
			case "depth":
				fmt.Sscanf(rest, "%d", &lem.Depth)
			case "export":
				lem.Export = true
			case "induct":
				// induct m from <expr>
				parts := strings.SplitN(rest, " from ", 2)
				if len(parts) != 2 {
					return nil, fail("induct clause: induct <var> from <lower bound>")
				}
				lem.Induct = strings.TrimSpace(parts[0])
				c, err := mkClause(parts[1], it.line)
				if err != nil {
					return nil, err
				}
				if regexp.MustCompile(`\b` + lem.Induct + `\b`).MatchString(parts[1]) {
					return nil, fail("induction bound must not mention %s", lem.Induct)
				}
				lem.InductFrom = c
			default:
				return nil, fail("clause %s not allowed in lemma", kw)
			}
			continue
		}
		if cur == nil {
			return nil, fail("clause outside func/lemma")
		}
		switch kw {
		case "mode":
			cur.Mode = rest
		case "returns":
			rest = strings.Trim(rest, "()")
			for _, n := range strings.Split(rest, ",") {
				cur.Returns = append(cur.Returns, strings.TrimSpace(n))
			}
		case "logical":
			for _, part := range strings.Split(rest, ",") {
				fs := strings.Fields(part)
				if len(fs) != 2 {
					return nil, fail("bad logical %q", part)
				}
				cur.Logical = append(cur.Logical, LogicalVar{fs[0], fs[1]})
			}
		case "requires", "ensures":
			c, err := mkClause(rest, it.line)
			if err != nil {
				return nil, err
			}
			if kw == "requires" {
				cur.Requires = append(cur.Requires, c)
			} else {
				cur.Ensures = append(cur.Ensures, c)
			}
		case "loop":
			// loop N: invariant E | loop N: decreases E | loop N: unroll K
			if im := regexp.MustCompile(`^(\d+)\s*:\s*isolate\s*$`).FindStringSubmatch(rest); im != nil {
				n, _ := strconv.Atoi(im[1])
				ls := cur.Loops[n]
				if ls == nil {
					ls = &LoopSpec{}
					cur.Loops[n] = ls
				}
				ls.Isolate = true
				continue
			}
			m := regexp.MustCompile(`^(\d+)\s*:\s*(invariant|decreases|unroll)\s+(.*)$`).FindStringSubmatch(rest)
			if m == nil {
				return nil, fail("bad loop clause")
			}
			n, _ := strconv.Atoi(m[1])
			ls := cur.Loops[n]
			if ls == nil {
				ls = &LoopSpec{}
				cur.Loops[n] = ls
			}
			switch m[2] {
			case "invariant":
				c, err := mkClause(m[3], it.line)
				if err != nil {
					return nil, err
				}
				ls.Invariants = append(ls.Invariants, c)
			case "decreases":
				c, err := mkClause(m[3], it.line)
				if err != nil {
					return nil, err
				}
				ls.Decreases = c
			case "unroll":
				ls.Unroll, _ = strconv.Atoi(strings.TrimSpace(m[3]))
			}
		case "callarg":
			// callarg callee#k: expr -- an obligation at the k-th call of callee; arg_<p> is the actual
			// argument passed for the callee's parameter p, everything else is read in the caller's state
			m := regexp.MustCompile(`^([A-Za-z0-9_.\[\]]+)#(\d+)\s*:\s*(.*)$`).FindStringSubmatch(rest)
			if m == nil {
				return nil, fail("bad callarg clause")
			}
			ord, _ := strconv.Atoi(m[2])
			c, err := mkClause(m[3], it.line)
			if err != nil {
				return nil, err
			}
			cur.CallArgs = append(cur.CallArgs, &CallArgSpec{Callee: m[1], Ordinal: ord, Clause: c})
		case "call":
			// call callee#k: V = expr
			m := regexp.MustCompile(`^([A-Za-z0-9_.\[\]]+)(#(\d+))?\s*:\s*([A-Za-z_][A-Za-z0-9_]*)\s*=\s*(.*)$`).FindStringSubmatch(rest)
			if m == nil {
				return nil, fail("bad call clause")
			}
			ord := 0
			if m[3] != "" {
				ord, _ = strconv.Atoi(m[3])
			}
			c, err := mkClause(m[5], it.line)
			if err != nil {
				return nil, err
			}
			var h *CallHint
			for _, x := range cur.Calls {
				if x.Callee == m[1] && x.Ordinal == ord {
					h = x
				}
			}
			if h == nil {
				h = &CallHint{Callee: m[1], Ordinal: ord, Binds: map[string]*Clause{}}
				cur.Calls = append(cur.Calls, h)
			}
			h.Binds[m[4]] = c
		case "waive":
			// waive kind at "text": reason
			m := regexp.MustCompile(`^([a-z0-9-]+)(\s+at\s+"([^"]*)")?\s*:\s*(.*)$`).FindStringSubmatch(rest)
			if m == nil {
				return nil, fail("bad waive clause")
			}
			cur.Waivers = append(cur.Waivers, &Waiver{Kind: m[1], Text: m[3], Reason: m[4]})
		case "panics":
			c, err := mkClause(rest, it.line)
			if err != nil {
				return nil, err
			}
			cur.Panics = c
			cur.HasPanics = true
		case "props":
			cur.Props = strings.Fields(rest)
		case "trusted":
			cur.Trusted = rest
			if rest == "" {
				cur.Trusted = "assumed"
			}
		case "nosafety":
			cur.NoSafety = true
		case "uses":
			cur.Uses = append(cur.Uses, strings.Fields(rest)...)
		case "assigns":
			cur.Assigns = append(cur.Assigns, strings.Fields(rest)...)
		case "ghost":
			if m := regexp.MustCompile(`^([A-Za-z_][A-Za-z0-9_]*)\s+int\s*=\s*(.*)$`).FindStringSubmatch(rest); m != nil {
				c, err := mkClause(m[2], it.line)
				if err != nil {
					return nil, err
				}
				cur.Ghosts = append(cur.Ghosts, &GhostVar{Name: m[1], Init: c, Line: it.line})
				break
			}
			m := regexp.MustCompile(`^(after|before)\s+"([^"]*)"(#(\d+))?\s*:\s*([A-Za-z_][A-Za-z0-9_]*)\s*=\s*(.*)$`).FindStringSubmatch(rest)
			if m == nil {
				return nil, fail("bad ghost clause")
			}
			ord := 1
			if m[4] != "" {
				ord, _ = strconv.Atoi(m[4])
			}
			c, err := mkClause(m[6], it.line)
			if err != nil {
				return nil, err
			}
			cur.GhostSets = append(cur.GhostSets, &GhostSet{Where: m[1], Text: m[2], Ord: ord, Name: m[5], Clause: c, Line: it.line})
		case "assert", "assume":
			// assert after "text"#k: expr
			m := regexp.MustCompile(`^(after|before)\s+"([^"]*)"(#(\d+))?\s*:\s*(.*)$`).FindStringSubmatch(rest)
			if m == nil {
				return nil, fail("bad assert clause")
			}
			ord := 1
			if m[4] != "" {
				ord, _ = strconv.Atoi(m[4])
			}
			c, err := mkClause(m[5], it.line)
			if err != nil {
				return nil, err
			}
			cur.Asserts = append(cur.Asserts, &AssertSpec{Where: m[1], Text: m[2], Ord: ord, Clause: c, Assume: kw == "assume"})
		case "cut":
			m := regexp.MustCompile(`^before\s+"([^"]*)"(#(\d+))?\s*:\s*havoc\s+([^:]*):\s*(.*)$`).FindStringSubmatch(rest)
			if m == nil {
				return nil, fail("bad cut clause")
			}
			ord := 1
			if m[3] != "" {
				ord, _ = strconv.Atoi(m[3])
			}
			body := m[5]
			var spVar string
			var spLo, spHi int
			if sm := regexp.MustCompile(`^split\s+([A-Za-z_][A-Za-z0-9_]*)\s+in\s+(-?\d+)\s*\.\.\s*(-?\d+)\s*:\s*(.*)$`).FindStringSubmatch(body); sm != nil {
				spVar = sm[1]
				spLo, _ = strconv.Atoi(sm[2])
				spHi, _ = strconv.Atoi(sm[3])
				body = sm[4]
			}
			c, err := mkClause(body, it.line)
			if err != nil {
				return nil, err
			}
			var hv []string
			for _, h := range strings.Split(m[4], ",") {
				if h = strings.TrimSpace(h); h != "" {
					hv = append(hv, h)
				}
			}
			cur.Cuts = append(cur.Cuts, &CutSpec{Text: m[1], Ord: ord, Havoc: hv, Clause: c, SplitVar: spVar, SplitLo: spLo, SplitHi: spHi})
		case "apply":
			// apply before "text"#n: lemma(a, b, ...)   |   apply loop N: lemma(a, b, ...)
			var whenText string
			if wm := regexp.MustCompile(`^((before\s+"[^"]*"(#\d+)?|loop\s+\d+))\s+when\s+\{([^}]*)\}\s*:`).FindStringSubmatch(rest); wm != nil {
				whenText = wm[4]
				rest = wm[1] + ":" + rest[len(wm[0]):]
			}
			m := regexp.MustCompile(`^(before\s+"([^"]*)"(#(\d+))?|loop\s+(\d+))\s*:\s*([A-Za-z_][A-Za-z0-9_]*)\((.*)\)\s*$`).FindStringSubmatch(rest)
			if m == nil {
				return nil, fail("bad apply clause")
			}
			ap := &ApplySpec{Text: m[2], Ord: 1, Lemma: m[6], Line: it.line}
			if whenText != "" {
				wc, err := mkClause(strings.TrimSpace(whenText), it.line)
				if err != nil {
					return nil, err
				}
				ap.When = wc
			}
			if m[4] != "" {
				ap.Ord, _ = strconv.Atoi(m[4])
			}
			if m[5] != "" {
				ap.Loop, _ = strconv.Atoi(m[5])
			}
			// split arguments at top-level commas
			depth := 0
			curArg := ""
			flush := func() error {
				if strings.TrimSpace(curArg) == "" {
					return nil
				}
				c, err := mkClause(strings.TrimSpace(curArg), it.line)
				if err != nil {
					return err
				}
				ap.Args = append(ap.Args, c)
				curArg = ""
				return nil
			}
			for _, ch := range m[7] {
				if ch == '(' || ch == '[' {
					depth++
				}
				if ch == ')' || ch == ']' {
					depth--
				}
				if ch == ',' && depth == 0 {
					if err := flush(); err != nil {
						return nil, err
					}
					continue
				}
				curArg += string(ch)
			}
			if err := flush(); err != nil {
				return nil, err
			}
			cur.Applies = append(cur.Applies, ap)
		case "limit":
			m := regexp.MustCompile(`^before\s+"([^"]*)"(#(\d+))?\s*(:\s*(.*))?$`).FindStringSubmatch(rest)
			if m == nil {
				return nil, fail("bad limit clause")
			}
			ord := 1
			if m[3] != "" {
				ord, _ = strconv.Atoi(m[3])
			}
			cur.Limits = append(cur.Limits, &CutSpec{Text: m[1], Ord: ord})
		case "mention":
			c, err := mkClause(rest, it.line)
			if err != nil {
				return nil, err
			}
			cur.Mentions = append(cur.Mentions, c)
		case "split":
			m := regexp.MustCompile(`^([A-Za-z_][A-Za-z0-9_]*)\s+in\s+(-?\d+)\s*\.\.\s*(-?\d+)(\s+open)?$`).FindStringSubmatch(rest)
			if m == nil {
				return nil, fail("bad split clause")
			}
			lo, _ := strconv.Atoi(m[2])
			hi, _ := strconv.Atoi(m[3])
			cur.Split = &SplitSpec{Var: m[1], Lo: lo, Hi: hi, Open: m[4] != ""}
		default:
			return nil, fail("clause %s not allowed here", kw)
		}
	}
	return cf, nil
}
