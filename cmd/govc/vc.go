package main

import (
	"fmt"
	"regexp"
	"strings"
	"sync"
)

// Obligation is one verification condition: under the recorded prefix of
// definitions and assumptions, pc => goal must be valid.
type Obligation struct {
	ID     string // func/kind/...
	Func   string
	Kind   string // ensures, requires(call), inv-entry, inv-preserve, decreases, bounds, div, overflow, panic, assert, lemma, cover ...
	NLines int    // how many VC lines are in scope
	PC     T
	Goal   T
	Note   string // human text: clause source
	Pos    string // source position for messages only
	vc     *VC
	// MustFail marks vacuity/cover probes: they are expected to be *refuted* (sat).
	MustFail bool
	// Inputs: names of smt consts for which a model is wanted
	Inputs []string
	Result *SolveResult
	Extra  []string // extra lines local to this obligation (axiom instances etc.)
	Keep   bool
	// replay support: the leaf terms of the values returned at this obligation's return site
	ResultLeaves []ReplayLeaf
	Params       []ReplayParam
	ExtraFn func(rel map[string]bool, level int) []string
	Levels  int // number of axiom-instance levels (1 = only level 0)
	TimeoutS int // per-obligation solver timeout override (0 = default)
}

// ReplayLeaf names one scalar of a parameter or result together with its Go type.
type ReplayLeaf struct {
	Term string // SMT term (constant name or literal)
	Path string // e.g. "[1]", ".hi"
	Type string // Go basic type name: uint64, int16, bool, ...
}

// ReplayParam describes one parameter of the function under contract.
type ReplayParam struct {
	Name     string
	GoType   string // type expression usable inside the package
	Leaves   []ReplayLeaf
	Receiver bool
	Unsupported string
}

type VC struct {
	Params []ReplayParam
	Func   string
	Mode   string // "int" or "bv"
	lines  []string
	n      int
	Obls   []*Obligation
	prefix string
	Inputs []string // smt const names of the inputs (params, logical vars, globals)
	// Assumptions made from outside (assumed contracts etc.) for evidence
	Notes []string
	mu    sync.Mutex
	linfo []*lineInfo
	always map[int]bool
	defs   map[string]T
}

var identSan = regexp.MustCompile(`[^A-Za-z0-9_]`)

func newVC(fn string, mode string) *VC {
	return &VC{Func: fn, Mode: mode, prefix: identSan.ReplaceAllString(fn, "_")}
}

func (v *VC) emit(s string) { v.lines = append(v.lines, s) }

func (v *VC) fresh(hint string, s Sort) T {
	v.n++
	name := fmt.Sprintf("%s!%s!%d", v.prefix, identSan.ReplaceAllString(hint, "_"), v.n)
	name = "|" + name + "|"
	v.emit(fmt.Sprintf("(declare-const %s %s)", name, s))
	return T{S: name, Sort: s}
}

// define introduces a named constant equal to t (so that t is shared, not copied).
func (v *VC) define(hint string, t T) T {
	if t.C != nil || t.B != nil {
		return t
	}
	if isAtom(t.S) {
		return t
	}
	if v.defs == nil {
		v.defs = map[string]T{}
	}
	if old, ok := v.defs[t.S]; ok {
		return old
	}
	n := v.fresh(hint, t.Sort)
	v.emit(fmt.Sprintf("(assert (= %s %s))", n.S, t.S))
	v.defs[t.S] = n
	return n
}

func isAtom(s string) bool {
	if strings.HasPrefix(s, "|") && strings.HasSuffix(s, "|") && strings.Count(s, "|") == 2 {
		return true
	}
	return !strings.ContainsAny(s, " (")
}

func (v *VC) assume(t T) {
	if t.B != nil && *t.B {
		return
	}
	v.emit("(assert " + t.S + ")")
}

// assumeAlways adds an assumption that every obligation's slice keeps (preconditions, case assumptions).
func (v *VC) assumeAlways(t T) {
	if t.B != nil && *t.B {
		return
	}
	if v.always == nil {
		v.always = map[int]bool{}
	}
	v.always[len(v.lines)] = true
	v.emit("(assert " + t.S + ")")
}

// markAlways keeps every non-declaration line emitted since index start in all slices.
func (v *VC) markAlways(start int) {
	if v.always == nil {
		v.always = map[int]bool{}
	}
	for i := start; i < len(v.lines); i++ {
		if !strings.HasPrefix(v.lines[i], "(declare-") {
			v.always[i] = true
		}
	}
}

func (v *VC) comment(s string) {
	v.emit("; " + strings.ReplaceAll(s, "\n", " "))
}

func (v *VC) oblige(id, kind string, pc, goal T, note, pos string) *Obligation {
	o := &Obligation{ID: v.Func + "/" + id, Func: v.Func, Kind: kind, NLines: len(v.lines), PC: pc, Goal: goal, Note: note, Pos: pos, vc: v}
	v.Obls = append(v.Obls, o)
	return o
}

var symRe = regexp.MustCompile(`\|[^|]+\|`)
var defRe = regexp.MustCompile(`^\(assert \(= (\|[^|]+\|) `)
var declRe = regexp.MustCompile(`^\(declare-const (\|[^|]+\|) `)

type lineInfo struct {
	syms []string
	def  string // symbol defined by this line ("" if a fact)
	decl string // symbol declared by this line
}

func (v *VC) info(i int) *lineInfo {
	v.mu.Lock()
	defer v.mu.Unlock()
	for len(v.linfo) <= i {
		l := v.lines[len(v.linfo)]
		li := &lineInfo{}
		if strings.HasPrefix(l, ";") {
			v.linfo = append(v.linfo, li)
			continue
		}
		seen := map[string]bool{}
		for _, m := range symRe.FindAllString(l, -1) {
			if !seen[m] {
				seen[m] = true
				li.syms = append(li.syms, m)
			}
		}
		if m := declRe.FindStringSubmatch(l); m != nil {
			li.decl = m[1]
		} else if m := defRe.FindStringSubmatch(l); m != nil {
			li.def = m[1]
		}
		v.linfo = append(v.linfo, li)
	}
	return v.linfo[i]
}

// slice returns the indices of the VC lines relevant to the obligation
// (cone of influence; dropping assumptions is always sound) and the relevant symbols.
func (o *Obligation) slice() ([]int, map[string]bool) {
	v := o.vc
	rel := map[string]bool{}
	for _, m := range symRe.FindAllString(o.PC.S+" "+o.Goal.S, -1) {
		rel[m] = true
	}
	inputs := map[string]bool{}
	for _, in := range v.Inputs {
		inputs[in] = true
	}
	n := o.NLines
	included := make([]bool, n)
	if n > 0 {
		v.info(n - 1)
	}
	for i := range v.always {
		if i < n {
			included[i] = true
			for _, s := range v.linfo[i].syms {
				rel[s] = true
			}
		}
	}
	changed := true
	for changed {
		changed = false
		for i := 0; i < n; i++ {
			if included[i] {
				continue
			}
			li := v.linfo[i]
			if li.decl != "" || len(li.syms) == 0 {
				continue
			}
			take := false
			if li.def != "" {
				take = rel[li.def]
			} else {
				onlyInputs := true
				for _, s := range li.syms {
					if !inputs[s] {
						onlyInputs = false
						if rel[s] {
							take = true
							break
						}
					}
				}
				if onlyInputs {
					take = true
				}
			}
			if take {
				included[i] = true
				changed = true
				for _, s := range li.syms {
					rel[s] = true
				}
			}
		}
	}
	var idx []int
	for i := 0; i < n; i++ {
		li := v.linfo[i]
		if li.decl != "" {
			if rel[li.decl] {
				idx = append(idx, i)
			}
			continue
		}
		if included[i] || (len(li.syms) == 0 && !strings.HasPrefix(v.lines[i], ";")) {
			idx = append(idx, i)
		}
	}
	return idx, rel
}

// SMT text for an obligation.
func (o *Obligation) SMT(prelude string, produceModels bool) string {
	return o.SMTLevel(prelude, produceModels, o.Levels-1)
}

// SMTLevel renders the obligation with the axiom instances of the given level (0 = narrowest).
func (o *Obligation) SMTLevel(prelude string, produceModels bool, level int) string {
	var sb strings.Builder
	if produceModels {
		sb.WriteString("(set-option :produce-models true)\n")
	}
	sb.WriteString("(set-logic ALL)\n")
	sb.WriteString(prelude)
	sb.WriteString("; ---- obligation " + o.ID + " (" + o.Kind + ") " + o.Pos + "\n")
	if o.Note != "" {
		sb.WriteString("; " + strings.ReplaceAll(o.Note, "\n", " ") + "\n")
	}
	idx, rel := o.slice()
	for _, i := range idx {
		sb.WriteString(o.vc.lines[i])
		sb.WriteByte('\n')
	}
	if o.ExtraFn != nil {
		for _, l := range o.ExtraFn(rel, level) {
			sb.WriteString(l)
			sb.WriteByte('\n')
		}
	}
	for _, l := range o.Extra {
		sb.WriteString(l)
		sb.WriteByte('\n')
	}
	if o.MustFail {
		// cover probe: is pc reachable (together with all assumptions)?
		sb.WriteString("(assert " + o.PC.S + ")\n")
	} else {
		sb.WriteString("(assert " + o.PC.S + ")\n")
		sb.WriteString("(assert (not " + o.Goal.S + "))\n")
	}
	sb.WriteString("(check-sat)\n")
	if produceModels && len(o.Inputs) > 0 {
		// only the inputs that are declared in this (sliced) query can be asked for
		have := map[string]bool{}
		for _, i := range idx {
			li := o.vc.linfo[i]
			if li.decl != "" {
				have[li.decl] = true
			}
			if li.def != "" {
				have[li.def] = true
			}
		}
		var ins []string
		for _, in := range o.Inputs {
			if have[in] || !strings.HasPrefix(in, "|") {
				ins = append(ins, in)
			}
		}
		if len(ins) > 0 {
			sb.WriteString("(get-value (" + strings.Join(ins, " ") + "))\n")
		}
	}
	return sb.String()
}
