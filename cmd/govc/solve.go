package main

import (
	"bytes"
	"context"
	"crypto/sha256"
	"encoding/hex"
	"fmt"
	"os"
	"os/exec"
	"path/filepath"
	"regexp"
	"strings"
	"sync"
	"time"
)

type SolveResult struct {
	Status   string   `json:"status"` // unsat, sat, unknown, timeout, error
	Solver   string   `json:"solver"`
	Seconds  float64  `json:"seconds"`
	Model    string   `json:"model,omitempty"`
	Output   string   `json:"output,omitempty"`
	CacheHit bool     `json:"cache_hit,omitempty"`
	Tried    []string `json:"tried,omitempty"`
	File     string   `json:"file,omitempty"`
}

type Solver struct {
	Name string
	Cmd  func(file string, timeoutS int) []string
}

var solvers = []Solver{
	{"z3-new", func(f string, t int) []string { return []string{"z3-new", fmt.Sprintf("-T:%d", t), f} }},
	{"cvc5", func(f string, t int) []string {
		return []string{"cvc5", "--produce-models", fmt.Sprintf("--tlimit=%d", t*1000), f}
	}},
	{"z3", func(f string, t int) []string { return []string{"z3", fmt.Sprintf("-T:%d", t), f} }},
}

var firstWord = regexp.MustCompile(`(?m)^(unsat|sat|unknown|timeout)\s*$`)

func runSolver(s Solver, file string, timeoutS int) (status string, out string, secs float64) {
	return runSolverCtx(context.Background(), s, file, timeoutS)
}

func runSolverCtx(parent context.Context, s Solver, file string, timeoutS int) (status string, out string, secs float64) {
	ctx, cancel := context.WithTimeout(parent, time.Duration(timeoutS+2)*time.Second)
	defer cancel()
	args := s.Cmd(file, timeoutS)
	cmd := exec.CommandContext(ctx, args[0], args[1:]...)
	var buf bytes.Buffer
	cmd.Stdout = &buf
	cmd.Stderr = &buf
	t0 := time.Now()
	_ = cmd.Run()
	secs = time.Since(t0).Seconds()
	out = buf.String()
	m := firstWord.FindStringSubmatch(out)
	if m == nil {
		if ctx.Err() != nil {
			return "timeout", out, secs
		}
		if strings.Contains(out, "interrupted") || strings.Contains(out, "timeout") {
			return "timeout", out, secs
		}
		return "error", out, secs
	}
	return m[1], out, secs
}

type SolveOpts struct {
	WorkDir   string
	TimeoutS  int
	UseCache  bool
	TwoSolver bool // thorough: require confirmation by a second solver
	Parallel  int
}

func cacheKey(text, solver string) string {
	h := sha256.Sum256([]byte(solver + "\n" + text))
	return hex.EncodeToString(h[:])
}

// solveOne decides one obligation with the portfolio.
func solveOne(o *Obligation, prelude string, opts SolveOpts) *SolveResult {
	if o.Levels > 1 && !o.MustFail {
		// try the narrow axiom-instance set first: fewer assumptions, so "unsat" is still a proof
		save := o.Levels
		o.Levels = 1
		o2 := opts
		if o2.TimeoutS > 10 {
			o2.TimeoutS = 10
		}
		o2.TwoSolver = false
		r := solveOneLevel(o, prelude, o2, "_l0")
		o.Levels = save
		if r.Status == "unsat" {
			r.Tried = append(r.Tried, "narrow-instance-level")
			return r
		}
	}
	return solveOneLevel(o, prelude, opts, "")
}

func solveOneLevel(o *Obligation, prelude string, opts SolveOpts, suffix string) *SolveResult {
	if o.TimeoutS > opts.TimeoutS {
		opts.TimeoutS = o.TimeoutS
	}
	text := o.SMT(prelude, true)
	name := identSan.ReplaceAllString(o.ID, "_")
	if len(name) > 180 {
		h := sha256.Sum256([]byte(name))
		name = name[:160] + hex.EncodeToString(h[:6])
	}
	file := filepath.Join(opts.WorkDir, "smt", name+suffix+".smt2")
	os.MkdirAll(filepath.Dir(file), 0o755)
	os.WriteFile(file, []byte(text), 0o644)
	res := &SolveResult{File: file}
	want := "unsat"
	_ = want
	cacheFile := ""
	if opts.UseCache {
		cacheFile = filepath.Join(opts.WorkDir, "cache", cacheKey(text, "any"))
		if data, err := os.ReadFile(cacheFile); err == nil {
			parts := strings.SplitN(string(data), "\n", 3)
			if len(parts) >= 2 {
				res.Status = parts[0]
				res.Solver = parts[1]
				if len(parts) == 3 {
					res.Model = parts[2]
				}
				res.CacheHit = true
				return res
			}
		}
	}
	if o.MustFail {
		// cover / vacuity probe: only "unsat" is bad news; a short single-solver attempt suffices
		t := opts.TimeoutS
		if t > 3 {
			t = 3
		}
		st, out, secs := runSolver(solvers[0], file, t)
		res.Status, res.Solver, res.Seconds = st, solvers[0].Name, secs
		if st == "error" {
			res.Output = out
		}
		return res
	}
	// portfolio: z3-new starts alone; if it has not answered after a short head start the other
	// two solvers are raced against it. The first decisive answer (unsat / sat) wins.
	total := 0.0
	type ans struct {
		st, out, name string
		secs          float64
	}
	ctx, cancel := context.WithCancel(context.Background())
	defer cancel()
	ch := make(chan ans, len(solvers))
	launch := func(s Solver) {
		go func() {
			st, out, secs := runSolverCtx(ctx, s, file, opts.TimeoutS)
			ch <- ans{st, out, s.Name, secs}
		}()
	}
	t0 := time.Now()
	launch(solvers[0])
	running := 1
	launchedAll := false
	timer := time.NewTimer(1500 * time.Millisecond)
	defer timer.Stop()
	done := false
	var last ans
	for running > 0 && !done {
		select {
		case a := <-ch:
			running--
			last = a
			res.Tried = append(res.Tried, fmt.Sprintf("%s:%s:%.2fs", a.name, a.st, a.secs))
			if a.st == "unsat" || a.st == "sat" {
				res.Status = a.st
				res.Solver = a.name
				if a.st == "sat" {
					if i := strings.Index(a.out, "sat"); i >= 0 {
						res.Model = strings.TrimSpace(a.out[i+3:])
					}
				}
				done = true
			} else if !launchedAll {
				launchedAll = true
				for _, s := range solvers[1:] {
					launch(s)
					running++
				}
			}
		case <-timer.C:
			if !launchedAll {
				launchedAll = true
				for _, s := range solvers[1:] {
					launch(s)
					running++
				}
			}
		}
	}
	cancel()
	total = time.Since(t0).Seconds()
	if !done {
		res.Status = "unknown"
		if strings.Contains(strings.Join(res.Tried, " "), "timeout") {
			res.Status = "timeout"
		}
		res.Output = last.out
		if len(res.Output) > 2000 {
			res.Output = res.Output[:2000]
		}
	}
	if opts.TwoSolver && res.Status == "unsat" {
		// confirm with a different solver
		for _, s := range solvers {
			if s.Name == res.Solver {
				continue
			}
			// the cross-check gets a short budget: it is a soundness probe (a second solver saying "sat"
			// is a disagreement), not a second proof attempt
			cto := opts.TimeoutS
			if cto > 15 {
				cto = 15
			}
			st2, _, secs2 := runSolver(s, file, cto)
			total += secs2
			res.Tried = append(res.Tried, fmt.Sprintf("%s:%s:%.2fs(confirm)", s.Name, st2, secs2))
			if st2 == "unsat" {
				res.Solver += "+" + s.Name
				break
			}
			if st2 == "sat" {
				res.Status = "unknown"
				res.Output = "solver disagreement: " + s.Name + " says sat"
				break
			}
		}
	}
	res.Seconds = total
	// query files of obligations that came out as expected are not kept (thousands of files of up to
	// a megabyte each); failing ones stay for the replay record. GOVC_KEEP_SMT=1 keeps everything.
	if ((!o.MustFail && res.Status == want) || (o.MustFail && res.Status != "unsat")) && os.Getenv("GOVC_KEEP_SMT") == "" && os.Getenv("GOVC_DEBUG") == "" {
		os.Remove(file)
	}
	if cacheFile != "" && (res.Status == "unsat" || res.Status == "sat") {
		os.MkdirAll(filepath.Dir(cacheFile), 0o755)
		os.WriteFile(cacheFile, []byte(res.Status+"\n"+res.Solver+"\n"+res.Model), 0o644)
	}
	return res
}

func solveAll(obls []*Obligation, preludes map[string]string, opts SolveOpts, progress func(o *Obligation)) {
	if opts.Parallel <= 0 {
		opts.Parallel = 14
	}
	var wg sync.WaitGroup
	ch := make(chan *Obligation)
	for k := 0; k < opts.Parallel; k++ {
		wg.Add(1)
		go func() {
			defer wg.Done()
			for o := range ch {
				o.Result = solveOne(o, preludes[o.vc.Mode], opts)
				if progress != nil {
					progress(o)
				}
			}
		}()
	}
	for _, o := range obls {
		ch <- o
	}
	close(ch)
	wg.Wait()
}

// Discharged reports whether the obligation is settled in the good direction.
func (o *Obligation) Discharged() bool {
	if o.Result == nil {
		return false
	}
	if o.MustFail {
		if o.Kind == "cover-return" {
			// individually informational (dead code exists); see deadFunctions
			return true
		}
		// cover / vacuity probe: must NOT be unsat
		return o.Result.Status != "unsat"
	}
	return o.Result.Status == "unsat"
}

// deadFunctions returns, per function, the cover-return probes when ALL returns of the
// function are unreachable under the assumptions (a contradictory contract), and the
// list of individually unreachable returns (dead code, informational).
func deadFunctions(obls []*Obligation) (allDead []*Obligation, deadReturns []string) {
	type agg struct {
		n, dead int
		first   *Obligation
	}
	m := map[string]*agg{}
	for _, o := range obls {
		if o.Kind != "cover-return" || o.Result == nil {
			continue
		}
		key := o.Func + splitSuffix(o.ID)
		a := m[key]
		if a == nil {
			a = &agg{first: o}
			m[key] = a
		}
		a.n++
		if o.Result.Status == "unsat" {
			a.dead++
			deadReturns = append(deadReturns, o.ID+" "+o.Pos)
		}
	}
	for _, a := range m {
		if a.n > 0 && a.dead == a.n {
			allDead = append(allDead, a.first)
		}
	}
	return
}

func splitSuffix(id string) string {
	if i := strings.LastIndex(id, "/"); i >= 0 && strings.Contains(id[i:], "=") {
		return id[i:]
	}
	return ""
}
