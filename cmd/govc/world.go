package main

import (
	"fmt"
	"go/ast"
	"go/token"
	"go/types"
	"os"
	"path/filepath"
	"sort"
	"strings"
	"sync"

	"golang.org/x/tools/go/packages"
	"golang.org/x/tools/go/ssa"
	"golang.org/x/tools/go/ssa/ssautil"
)

type World struct {
	repo      string
	verif     string
	fset      *token.FileSet
	info      *types.Info
	files     []*ast.File
	tpkg      *types.Package
	prog      *ssa.Program
	pkg       *ssa.Package
	funcs     map[string]*ssa.Function
	contracts *ContractFile
	prelude   map[string]string
	sigs      map[string]map[string]FuncSig

	mu        sync.Mutex
	typeTags  map[string]int
	externals map[string]bool
	trusted   map[string]string
	lemmaUses map[string]bool
	env       []string
}

func (w *World) typeTag(name string) int {
	w.mu.Lock()
	defer w.mu.Unlock()
	if t, ok := w.typeTags[name]; ok {
		return t
	}
	t := len(w.typeTags) + 1
	w.typeTags[name] = t
	return t
}

func (w *World) noteExternal(name string) {
	w.mu.Lock()
	w.externals[name] = true
	w.mu.Unlock()
}

func (w *World) noteLemmaUse(name string) {
	w.mu.Lock()
	if w.lemmaUses == nil {
		w.lemmaUses = map[string]bool{}
	}
	w.lemmaUses[name] = true
	w.mu.Unlock()
}

func (w *World) noteTrusted(name, reason string) {
	w.mu.Lock()
	w.trusted[name] = reason
	w.mu.Unlock()
}

func loadWorld(repo, verif string) (*World, error) {
	w := &World{repo: repo, verif: verif, funcs: map[string]*ssa.Function{}, typeTags: map[string]int{}, externals: map[string]bool{}, trusted: map[string]string{},
		prelude: map[string]string{}, sigs: map[string]map[string]FuncSig{}}
	w.env = append(os.Environ(), "GOFLAGS=-mod=mod", "GOPROXY=off", "GOSUMDB=off", "GOTOOLCHAIN=local")
	cfg := &packages.Config{Mode: packages.LoadAllSyntax, Dir: repo, BuildFlags: []string{"-tags=verif"}, Env: w.env}
	pkgs, err := packages.Load(cfg, ".")
	if err != nil {
		return nil, err
	}
	if len(pkgs) != 1 {
		return nil, fmt.Errorf("expected one package, got %d", len(pkgs))
	}
	if len(pkgs[0].Errors) > 0 {
		return nil, fmt.Errorf("package errors: %v", pkgs[0].Errors)
	}
	prog, spkgs := ssautil.AllPackages(pkgs, ssa.NaiveForm|ssa.InstantiateGenerics)
	prog.Build()
	w.prog = prog
	w.pkg = spkgs[0]
	w.fset = pkgs[0].Fset
	w.info = pkgs[0].TypesInfo
	w.files = pkgs[0].Syntax
	w.tpkg = pkgs[0].Types
	for fn := range ssautil.AllFunctions(prog) {
		own := fn.Pkg == w.pkg || (fn.Origin() != nil && fn.Origin().Pkg == w.pkg)
		if !own {
			continue
		}
		if fn.Synthetic != "" && !strings.HasPrefix(fn.Synthetic, "instance of") {
			continue
		}
		if fn.Parent() != nil && len(fn.FreeVars) != 0 {
			continue // closures that capture variables are outside the subset
		}
		if fn.TypeParams().Len() > 0 && len(fn.TypeArgs()) == 0 {
			continue // uninstantiated generic
		}
		if fn.Name() == "init" {
			continue
		}
		k := funcKey(fn)
		if old, dup := w.funcs[k]; dup && old != fn {
			// pointer/value wrappers: prefer the one with syntax
			if fn.Syntax() == nil {
				continue
			}
		}
		w.funcs[k] = fn
	}
	// contracts: every *_verif.go file of the repository
	w.contracts = &ContractFile{Funcs: map[string]*Contract{}}
	matches, _ := filepath.Glob(filepath.Join(repo, "*_verif.go"))
	sort.Strings(matches)
	for _, m := range matches {
		cf, err := parseContractFile(m)
		if err != nil {
			return nil, err
		}
		for _, k := range cf.Order {
			if _, dup := w.contracts.Funcs[k]; dup {
				return nil, fmt.Errorf("duplicate contract for %s", k)
			}
			w.contracts.Funcs[k] = cf.Funcs[k]
			w.contracts.Order = append(w.contracts.Order, k)
		}
		w.contracts.Lemmas = append(w.contracts.Lemmas, cf.Lemmas...)
		w.contracts.Folds = append(w.contracts.Folds, cf.Folds...)
	}
	for _, mode := range []string{"int", "bv"} {
		data, err := os.ReadFile(filepath.Join(verif, "prelude", mode+".smt2"))
		if err != nil {
			return nil, err
		}
		w.prelude[mode] = string(data)
		if mode == "int" {
			for _, f := range w.contracts.Folds {
				if f.Init == nil || f.Step == nil {
					return nil, fmt.Errorf("fold %s needs init and step", f.Name)
				}
				w.prelude[mode] += fmt.Sprintf("(declare-fun fold_%s ((Array Int Int) Int Int) Int)\n", f.Name)
			}
		}
		w.sigs[mode] = parsePreludeSigs(string(data))
	}
	return w, nil
}

func (w *World) funcNames() []string {
	var ns []string
	for k := range w.funcs {
		ns = append(ns, k)
	}
	sort.Strings(ns)
	return ns
}
