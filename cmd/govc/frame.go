package main

import (
	"fmt"
	"go/types"
	"sort"
	"strings"

	"golang.org/x/tools/go/packages"
	"golang.org/x/tools/go/ssa"
	"golang.org/x/tools/go/ssa/ssautil"
)

// Frame analysis (C20): every function of the package is checked for writes that are
// visible to other goroutines or to the caller: stores to package-level variables, stores through
// parameters (slices, pointers) other than the documented output arguments, map updates, channel
// sends, goroutine starts. The check is syntactic over go/ssa (registers, not NaiveForm): the root
// of every written address is traced through IndexAddr/FieldAddr/Slice/Phi/append results.

type FrameFinding struct {
	Func string
	Pos  string
	What string
}

// documented output arguments: function -> parameter names that may be written through
var frameAllowed = map[string][]string{
	"Append":                   {"buf"},
	"Decimal.Append":           {"buf"},
	"Decimal.Decompose":        {"buf"},
	"Decimal.Compose":          {"d"},
	"Decimal.UnmarshalBinary":  {"d"},
	"Decimal.UnmarshalJSON":    {"d"},
	"Decimal.UnmarshalText":    {"d"},
	"Decimal.Scan":             {"d"},
	"Decimal.Int":              {"i"},
	"Decimal.Rat":              {"r"},
	"Decimal.Float":            {"f"},
	"Decimal.appendSpecial":    {"buf"},
	"Decimal.format":           {"buf"},
	"Decimal.writeSpecial":     {},
	"digits.fmtE":              {"buf"},
	"digits.fmtF":              {"buf"},
	"digits.pad":               {"buf"},
	"digits.round":             {"d"},
	"Decimal.digits":           {"digs"},
	"parseFormat":              {"args"},
	"verifDecomposeCompose":    {"buf"}, // verif-only client: hands the caller's buffer to Decompose
}

// methods of *big.Int, *big.Rat and *big.Float that do not modify their receiver
var bigReadOnly = map[string]bool{"Sign": true, "BitLen": true, "Cmp": true, "CmpAbs": true, "IsInt64": true, "IsUint64": true, "Int64": true,
	"Uint64": true, "Bits": true, "Bit": true, "String": true, "Text": true, "Append": true, "Format": true, "Num": true, "Denom": true, "IsInt": true,
	"Float64": true, "Float32": true, "FloatString": true, "TrailingZeroBits": true, "ProbablyPrime": true, "Bytes": true, "FillBytes": true,
	"Prec": true, "MinPrec": true, "Mode": true, "Acc": true, "MantExp": true, "IsInf": true, "Signbit": true, "Int": true, "Rat": true,
	"MarshalText": true, "MarshalJSON": true, "GobEncode": true, "IsNegative": true}

type rootKind int

const (
	rootLocal rootKind = iota
	rootGlobal
	rootParam
	rootUnknown
)

type root struct {
	kind rootKind
	name string
}

func traceRoots(v ssa.Value, seen map[ssa.Value]bool, out *[]root) {
	if seen[v] {
		return
	}
	seen[v] = true
	switch x := v.(type) {
	case *ssa.Global:
		*out = append(*out, root{rootGlobal, x.Name()})
	case *ssa.Parameter:
		*out = append(*out, root{rootParam, x.Name()})
	case *ssa.Alloc, *ssa.MakeSlice, *ssa.Const, *ssa.MakeInterface, *ssa.MakeMap, *ssa.MakeChan, *ssa.MakeClosure:
		*out = append(*out, root{rootLocal, ""})
	case *ssa.FreeVar:
		*out = append(*out, root{rootParam, "freevar " + x.Name()})
	case *ssa.IndexAddr:
		traceRoots(x.X, seen, out)
	case *ssa.FieldAddr:
		traceRoots(x.X, seen, out)
	case *ssa.Slice:
		traceRoots(x.X, seen, out)
	case *ssa.ChangeType:
		traceRoots(x.X, seen, out)
	case *ssa.Convert:
		// string -> []byte conversions allocate
		*out = append(*out, root{rootLocal, ""})
	case *ssa.Phi:
		for _, e := range x.Edges {
			traceRoots(e, seen, out)
		}
	case *ssa.UnOp:
		// load of a pointer/slice from memory: trace where the loaded-from address lives; a slice
		// loaded from a global variable aliases shared memory
		traceRoots(x.X, seen, out)
	case *ssa.Extract:
		traceRoots(x.Tuple, seen, out)
	case *ssa.Call:
		if b, ok := x.Call.Value.(*ssa.Builtin); ok && b.Name() == "append" {
			traceRoots(x.Call.Args[0], seen, out)
			return
		}
		// result of another call: for package functions that return one of their buffer arguments
		// (Append, fmtE, ...) follow the slice/pointer arguments; external results are fresh
		if f := x.Call.StaticCallee(); f != nil && f.Pkg != nil && f.Pkg.Pkg.Path() == "math/big" && f.Signature.Recv() != nil && len(x.Call.Args) > 0 {
			// math/big methods return their receiver (the destination), never an operand
			traceRoots(x.Call.Args[0], seen, out)
			return
		}
		if f := x.Call.StaticCallee(); f != nil {
			for _, a := range x.Call.Args {
				switch a.Type().Underlying().(type) {
				case *types.Slice, *types.Pointer:
					traceRoots(a, seen, out)
				}
			}
		}
		*out = append(*out, root{rootLocal, ""})
	default:
		*out = append(*out, root{rootUnknown, fmt.Sprintf("%T", v)})
	}
}

func frameCheck(w *World) (findings []FrameFinding, nfuncs int, err error) {
	cfg := &packages.Config{Mode: packages.LoadAllSyntax, Dir: w.repo, BuildFlags: []string{"-tags=verif"}, Env: w.env}
	pkgs, err := packages.Load(cfg, ".")
	if err != nil {
		return nil, 0, err
	}
	prog, spkgs := ssautil.AllPackages(pkgs, ssa.InstantiateGenerics)
	prog.Build()
	pkg := spkgs[0]
	var fns []*ssa.Function
	for fn := range ssautil.AllFunctions(prog) {
		own := fn.Pkg == pkg || (fn.Origin() != nil && fn.Origin().Pkg == pkg)
		if !own || (fn.Synthetic != "" && !strings.HasPrefix(fn.Synthetic, "instance of")) {
			continue
		}
		if fn.TypeParams().Len() > 0 && len(fn.TypeArgs()) == 0 {
			continue
		}
		if fn.Name() == "init" {
			continue
		}
		fns = append(fns, fn)
	}
	sort.Slice(fns, func(i, j int) bool { return fns[i].String() < fns[j].String() })
	for _, fn := range fns {
		nfuncs++
		key := funcKey(fn)
		if fn.Parent() != nil {
			key = funcKey(fn.Parent()) // closures share their parent's allowance
		}
		allowed := map[string]bool{}
		for _, a := range frameAllowed[key] {
			allowed[a] = true
		}
		report := func(ins ssa.Instruction, what string) {
			findings = append(findings, FrameFinding{Func: fn.String(), Pos: prog.Fset.Position(ins.Pos()).String(), What: what})
		}
		checkWrite := func(ins ssa.Instruction, addr ssa.Value, how string) {
			var rs []root
			traceRoots(addr, map[ssa.Value]bool{}, &rs)
			for _, r := range rs {
				switch r.kind {
				case rootGlobal:
					report(ins, how+" writes package-level variable "+r.name)
				case rootParam:
					if !allowed[r.name] && !strings.HasPrefix(r.name, "freevar") {
						report(ins, how+" writes through parameter "+r.name+" (not a documented output argument)")
					}
				case rootUnknown:
					report(ins, how+" writes through an address of unknown origin ("+r.name+")")
				}
			}
		}
		for _, b := range fn.Blocks {
			for _, ins := range b.Instrs {
				switch x := ins.(type) {
				case *ssa.Store:
					checkWrite(ins, x.Addr, "store")
				case *ssa.MapUpdate:
					checkWrite(ins, x.Map, "map update")
				case *ssa.Return:
					// a slice, pointer or map handed to the caller must not be (part of) a package-level
					// variable: the caller, or a later call that is given the result as its buffer, would
					// write into shared state
					for _, rv := range x.Results {
						switch rv.Type().Underlying().(type) {
						case *types.Slice, *types.Pointer, *types.Map:
							var rs []root
							traceRoots(rv, map[ssa.Value]bool{}, &rs)
							for _, r := range rs {
								if r.kind == rootGlobal {
									report(ins, "returns a reference into package-level variable "+r.name)
								}
							}
						}
					}
				case *ssa.Send:
					report(ins, "channel send")
				case *ssa.Go:
					report(ins, "goroutine start")
				case *ssa.Call:
					if bi, ok := x.Call.Value.(*ssa.Builtin); ok {
						switch bi.Name() {
						case "copy":
							checkWrite(ins, x.Call.Args[0], "copy")
						case "append":
							// append may write into the spare capacity of its first argument
							checkWrite(ins, x.Call.Args[0], "append")
						case "clear":
							checkWrite(ins, x.Call.Args[0], "clear")
						}
					}
					// math/big: the receiver of every method except the read-only ones is the destination
					if callee := x.Call.StaticCallee(); callee != nil && callee.Pkg != nil && callee.Pkg.Pkg.Path() == "math/big" && callee.Signature.Recv() != nil && len(x.Call.Args) > 0 {
						if _, isPtr := callee.Signature.Recv().Type().(*types.Pointer); isPtr && !bigReadOnly[callee.Name()] {
							checkWrite(ins, x.Call.Args[0], "math/big "+callee.Name())
							if callee.Name() == "QuoRem" || callee.Name() == "DivMod" {
								checkWrite(ins, x.Call.Args[len(x.Call.Args)-1], "math/big "+callee.Name()+" (remainder argument)")
							}
						}
					}
					// handing a slice or pointer to a function of this package that writes through the
					// corresponding parameter is a write through it
					if callee := x.Call.StaticCallee(); callee != nil && (callee.Pkg == pkg || (callee.Origin() != nil && callee.Origin().Pkg == pkg)) {
						ck := funcKey(callee)
						if callee.Parent() != nil {
							ck = funcKey(callee.Parent())
						}
						for k, prm := range callee.Params {
							if k >= len(x.Call.Args) {
								break
							}
							for _, a := range frameAllowed[ck] {
								if a == prm.Name() {
									checkWrite(ins, x.Call.Args[k], "call of "+ck+" (which writes through its parameter "+a+")")
								}
							}
						}
					}
					// address of a package-level variable handed to a callee
					for _, a := range x.Call.Args {
						if g, ok := a.(*ssa.Global); ok {
							report(ins, "address of package-level variable "+g.Name()+" passed to a call")
						}
					}
				}
			}
		}
	}
	// Mode independence: a function that takes the rounding mode as an argument (the *WithMode methods,
	// Decimal.Round) must not read DefaultRoundingMode, directly or through a callee of this package: its
	// result is then a function of its arguments alone, and "X equals XWithMode under DefaultRoundingMode"
	// follows from the wrapper handing on its operands and DefaultRoundingMode (callarg + callres clauses).
	readsMode := map[*ssa.Function]string{}
	calls := map[*ssa.Function][]*ssa.Function{}
	for _, fn := range fns {
		for _, b := range fn.Blocks {
			for _, ins := range b.Instrs {
				for _, op := range ins.Operands(nil) {
					if g, ok := (*op).(*ssa.Global); ok && g.Name() == "DefaultRoundingMode" {
						if _, ok := readsMode[fn]; !ok {
							readsMode[fn] = prog.Fset.Position(ins.Pos()).String()
						}
					}
				}
				if c, ok := ins.(ssa.CallInstruction); ok {
					if callee := c.Common().StaticCallee(); callee != nil && (callee.Pkg == pkg || (callee.Origin() != nil && callee.Origin().Pkg == pkg)) {
						calls[fn] = append(calls[fn], callee)
					}
				}
			}
		}
		for _, an := range fn.AnonFuncs {
			calls[fn] = append(calls[fn], an)
		}
	}
	for _, fn := range fns {
		takesMode := false
		for _, prm := range fn.Params {
			if named, ok := prm.Type().(*types.Named); ok && named.Obj().Name() == "RoundingMode" && prm.Name() != "rm" && fn.Signature.Recv() != nil {
				takesMode = true
			}
		}
		if !takesMode || fn.Signature.Recv() == nil {
			continue
		}
		if rn, ok := fn.Signature.Recv().Type().(*types.Named); !ok || rn.Obj().Name() != "Decimal" {
			continue
		}
		seen := map[*ssa.Function]bool{}
		var walk func(f *ssa.Function, via string)
		walk = func(f *ssa.Function, via string) {
			if seen[f] {
				return
			}
			seen[f] = true
			if at, ok := readsMode[f]; ok {
				findings = append(findings, FrameFinding{Func: fn.String(), Pos: at, What: "takes the rounding mode as an argument but reads DefaultRoundingMode" + via})
				return
			}
			for _, c := range calls[f] {
				walk(c, " through "+c.String())
			}
		}
		walk(fn, "")
	}
	return findings, nfuncs, nil
}
