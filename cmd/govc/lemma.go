package main

import (
	"fmt"
	"go/types"
	"strings"
)

func lemmaVarVal(vc *VC, th Theory, lv LogicalVar) (Val, error) {
	mk := func(hint string, mt MT) Val {
		c := vc.fresh(hint, th.Sort(mt))
		vc.assume(th.Range(c, mt))
		m := mt
		return Leaf{T: c, MT: &m}
	}
	switch lv.Sort {
	case "int":
		return Leaf{T: vc.fresh(lv.Name, th.SpecSort())}, nil
	case "real":
		return Leaf{T: vc.fresh(lv.Name, sortReal)}, nil
	case "bool":
		return Leaf{T: vc.fresh(lv.Name, sortBool)}, nil
	case "u8":
		return mk(lv.Name, MT{8, false}), nil
	case "u64":
		return mk(lv.Name, MT{64, false}), nil
	case "i16":
		return mk(lv.Name, MT{16, true}), nil
	case "i64":
		return mk(lv.Name, MT{64, true}), nil
	case "bytes":
		ln := vc.fresh(lv.Name+"_len", sortInt)
		off := vc.fresh(lv.Name+"_off", sortInt)
		vc.assume(mkAnd(mkCmp("<=", intT64(0), ln), mkCmp("<=", intT64(0), off)))
		return &SliceV{Arr: vc.fresh(lv.Name+"_arr", sortArr), Off: off, Len: ln, Cap: ln, Elem: MT{8, false}, IsString: true}, nil
	case "decimal":
		return Agg{Elems: []Val{mk(lv.Name+"_lo", u64), mk(lv.Name+"_hi", u64)}}, nil
	case "u128":
		return Agg{Elems: []Val{mk(lv.Name+"_0", u64), mk(lv.Name+"_1", u64)}}, nil
	case "u192":
		return Agg{Elems: []Val{mk(lv.Name+"_0", u64), mk(lv.Name+"_1", u64), mk(lv.Name+"_2", u64)}}, nil
	}
	return nil, fmt.Errorf("unknown lemma variable sort %s", lv.Sort)
}

func genLemmas(w *World, filter func(l *Lemma) bool) ([]*Obligation, error) {
	var out []*Obligation
	for _, l := range w.contracts.Lemmas {
		if filter != nil && !filter(l) {
			continue
		}
		var th Theory = IntTheory{}
		if l.Mode == "bv" {
			th = BVTheory{}
		}
		vc := newVC("lemma."+l.Name, l.Mode)
		var rsTerms [][2]T
		ev := &Evaluator{th: th, vc: vc, pkg: w.tpkg, sigs: w.sigs[l.Mode], folds: w.foldMap(), typeTag: w.typeTag}
		var foldApps []foldApp
		ev.onFold = func(name string, arr, off, n T) { foldApps = append(foldApps, foldApp{name, arr, off, n}) }
		ev.onRS = func(v, e T) { rsTerms = append(rsTerms, [2]T{v, e}) }
		var beTerms [][3]T
		ev.onBE = func(arr, off, n T) { beTerms = append(beTerms, [3]T{arr, off, n}) }
		var decs [][2]T
		ev.onDec = func(lo, hi T) { decs = append(decs, [2]T{lo, hi}) }
		env := &Env{vars: map[string]Val{}}
		for _, lv := range l.Vars {
			v, err := lemmaVarVal(vc, th, lv)
			if err != nil {
				return nil, fmt.Errorf("lemma %s: %v", l.Name, err)
			}
			env.vars[lv.Name] = v
			var ins []string
			collectInputs(v, &ins)
			vc.Inputs = append(vc.Inputs, ins...)
		}
		var evalErrOut error
		var indObl *Obligation
		func() {
			defer func() {
				if r := recover(); r != nil {
					if ee, ok := r.(evalErr); ok {
						evalErrOut = fmt.Errorf("lemma %s: %s", l.Name, string(ee))
						return
					}
					panic(r)
				}
			}()
			var hypTs []T
			for _, h := range l.Hyps {
				t := ev.boolOf(ev.Eval(h.E, env))
				hypTs = append(hypTs, t)
				vc.assumeAlways(t)
			}
			if l.Induct != "" && l.Goal != nil {
				mv, ok := env.vars[l.Induct].(Leaf)
				if !ok || mv.T.Sort.K != SInt {
					evalErrOut = fmt.Errorf("lemma %s: induction variable must be an int variable", l.Name)
					return
				}
				// well-foundedness: the hypotheses bound the induction variable from below
				lb := ev.specOf(ev.Eval(l.InductFrom.E, env))
				ob := vc.oblige("induct-bound", "lemma", tTrue, mkCmp(">=", mv.T, lb), "hypotheses imply "+l.Induct+" >= "+l.InductFrom.Text, fmt.Sprintf("contracts:%d", l.Line))
				ob.Inputs = vc.Inputs
				indObl = ob
				// induction hypothesis at m-1
				env2 := &Env{vars: map[string]Val{}}
				for k, v := range env.vars {
					env2.vars[k] = v
				}
				env2.vars[l.Induct] = Leaf{T: mkSub(mv.T, intT64(1))}
				var h2 []T
				for _, h := range l.Hyps {
					h2 = append(h2, ev.boolOf(ev.Eval(h.E, env2)))
				}
				vc.assumeAlways(mkImp(mkAnd(h2...), ev.boolOf(ev.Eval(l.Goal.E, env2))))
			}
			if l.Goal == nil {
				evalErrOut = fmt.Errorf("lemma %s has no holds clause", l.Name)
				return
			}
			g := ev.boolOf(ev.Eval(l.Goal.E, env))
			o := vc.oblige("holds", "lemma", tTrue, g, l.Goal.Text, fmt.Sprintf("contracts:%d", l.Line))
			o.Inputs = vc.Inputs
			var wide []int
			for k := 1; k <= 38; k++ {
				wide = append(wide, k)
			}
			o.Extra = append(o.Extra, rsInstancesK(rsTerms, wide, []int{0, 1, 20, 36, 40})...)
			if l.Mode == "int" && !l.Export {
				for _, d := range decs {
					o.Extra = append(o.Extra, w.exportedInstances(d[0], d[1])...)
				}
			}
			fd := 2
			if l.Depth > fd {
				fd = l.Depth
			}
			o.Extra = append(o.Extra, w.foldInstances(foldApps, fd)...)
			o.Extra = append(o.Extra, beInstances(beTerms)...)
			if indObl != nil {
				indObl.Extra = o.Extra
				out = append(out, indObl)
			}
			out = append(out, o)
			if len(l.Hyps) > 0 {
				p := vc.oblige("vacuity", "vacuity", tTrue, tFalse, "hypotheses satisfiable", "")
				p.MustFail = true
				out = append(out, p)
			}
		}()
		if evalErrOut != nil {
			return nil, evalErrOut
		}
	}
	return out, nil
}

// exportedInstances instantiates every exported lemma whose only variable is a
// decimal at the given (lo, hi) pair, in the INT theory. The lemma itself is
// proved in its own mode (BV); here it is used as a bridge axiom.
func (w *World) exportedInstances(lo, hi T) []string {
	var out []string
	th := IntTheory{}
	for _, l := range w.contracts.Lemmas {
		if !l.Export || len(l.Vars) != 1 || l.Vars[0].Sort != "decimal" || l.Goal == nil {
			continue
		}
		ev := &Evaluator{th: th, pkg: w.tpkg, sigs: w.sigs["int"]}
		env := &Env{vars: map[string]Val{l.Vars[0].Name: Agg{Elems: []Val{Leaf{T: lo, MT: &u64}, Leaf{T: hi, MT: &u64}}}}}
		func() {
			defer func() {
				if r := recover(); r != nil {
					if _, ok := r.(evalErr); ok {
						return
					}
					panic(r)
				}
			}()
			var hyps []T
			for _, h := range l.Hyps {
				hyps = append(hyps, ev.boolOf(ev.Eval(h.E, env)))
			}
			g := ev.boolOf(ev.Eval(l.Goal.E, env))
			out = append(out, "(assert "+mkImp(mkAnd(hyps...), g).S+") ; bridge axiom "+l.Name)
		}()
	}
	return out
}

var _ = types.Typ
var _ = strings.Join
