package main

import (
	"sync/atomic"
	"fmt"
	"go/constant"
	"go/types"
	"math/big"
	"regexp"
	"strings"
)

// ---------------------------------------------------------------- values

type Val interface{}

// Leaf is a scalar. MT != nil: Go machine integer. MT == nil: Go bool or spec-level value.
type Leaf struct {
	T  T
	MT *MT
}

type Agg struct {
	Elems []Val
}

// Ptr points into a cell (local variable / parameter pointee), following Path.
type Ptr struct {
	Cell *Cell
	Path []PathElem
}

// PtrSet is a pointer whose target depends on the path taken (a merge of different pointers at a
// join): a read is the ite of the reads, a write updates every alternative conditionally.
type PtrSet struct {
	Conds []T
	Ptrs  []Ptr
}

type PathElem struct {
	Const int
	Sym   *T // symbolic index (in spec ints), nil if constant
	N     int
}

// SliceV is a slice or string value: elements are select(Arr, Off+i).
// For mutable slices Back != nil and the current contents are state[Back].
type SliceV struct {
	Back     *Cell // backing store cell (contents Leaf of sort Arr) or nil
	Arr      T     // used when Back == nil (strings)
	Off      T     // spec int
	Len, Cap T     // spec int
	Elem     MT
	IsString bool
}

type Opaque struct {
	Desc string
	Tag  T // optional integer tag (error kinds etc.)
}

type Cell struct {
	Name string
	Typ  types.Type
	ID   int
}

func machineType(t types.Type) (MT, bool) {
	b, ok := t.Underlying().(*types.Basic)
	if !ok {
		return MT{}, false
	}
	switch b.Kind() {
	case types.Int8:
		return MT{8, true}, true
	case types.Int16:
		return MT{16, true}, true
	case types.Int32, types.UntypedRune:
		return MT{32, true}, true
	case types.Int64, types.Int, types.UntypedInt:
		return MT{64, true}, true
	case types.Uint8:
		return MT{8, false}, true
	case types.Uint16:
		return MT{16, false}, true
	case types.Uint32:
		return MT{32, false}, true
	case types.Uint64, types.Uint, types.Uintptr:
		return MT{64, false}, true
	}
	return MT{}, false
}

func isBoolType(t types.Type) bool {
	b, ok := t.Underlying().(*types.Basic)
	return ok && b.Info()&types.IsBoolean != 0
}

func isStringType(t types.Type) bool {
	b, ok := t.Underlying().(*types.Basic)
	return ok && b.Info()&types.IsString != 0
}

// ---------------------------------------------------------------- prelude signatures

type FuncSig struct {
	Params []Sort
	Result Sort
}

var sigRe = regexp.MustCompile(`\((define-fun|declare-fun|define-fun-rec)\s+([^\s()]+)\s+\(`)

func parseSortAt(s string, i int) (Sort, int) {
	for i < len(s) && (s[i] == ' ' || s[i] == '\n' || s[i] == '\t') {
		i++
	}
	if strings.HasPrefix(s[i:], "Bool") {
		return sortBool, i + 4
	}
	if strings.HasPrefix(s[i:], "Int") {
		return sortInt, i + 3
	}
	if strings.HasPrefix(s[i:], "Real") {
		return sortReal, i + 4
	}
	if strings.HasPrefix(s[i:], "(_ BitVec ") {
		j := i + len("(_ BitVec ")
		k := j
		for s[k] != ')' {
			k++
		}
		var w int
		fmt.Sscanf(s[j:k], "%d", &w)
		return sortBV(w), k + 1
	}
	if strings.HasPrefix(s[i:], "(Array Int Int)") {
		return sortArr, i + len("(Array Int Int)")
	}
	panic("prelude: cannot parse sort at: " + s[i:min(len(s), i+40)])
}

func parsePreludeSigs(text string) map[string]FuncSig {
	sigs := map[string]FuncSig{}
	for _, loc := range sigRe.FindAllStringSubmatchIndex(text, -1) {
		kind := text[loc[2]:loc[3]]
		name := text[loc[4]:loc[5]]
		i := loc[1] // just after the "(" opening the params
		var ps []Sort
		if kind == "declare-fun" {
			for {
				for text[i] == ' ' || text[i] == '\n' {
					i++
				}
				if text[i] == ')' {
					i++
					break
				}
				var s Sort
				s, i = parseSortAt(text, i)
				ps = append(ps, s)
			}
		} else {
			for {
				for text[i] == ' ' || text[i] == '\n' {
					i++
				}
				if text[i] == ')' {
					i++
					break
				}
				// (name Sort)
				i++ // (
				for text[i] != ' ' {
					i++
				}
				var s Sort
				s, i = parseSortAt(text, i)
				for text[i] != ')' {
					i++
				}
				i++
				ps = append(ps, s)
			}
		}
		rs, _ := parseSortAt(text, i)
		sigs[name] = FuncSig{Params: ps, Result: rs}
	}
	return sigs
}

// ---------------------------------------------------------------- evaluation of contract expressions

type Env struct {
	vars      map[string]Val
	lookupCur func(name string) (Val, bool)
	lookupOld func(name string) (Val, bool)
	lookupPtr func(name string) (Ptr, bool) // address of a local variable (for field access on struct locals)
	lookupType func(name string) types.Type // static type of a parameter (for field access on struct values)
	inOld     bool
	parent    *Env
}

func (e *Env) bind(name string, v Val) *Env {
	return &Env{vars: map[string]Val{name: v}, lookupCur: e.lookupCur, lookupOld: e.lookupOld, lookupPtr: e.lookupPtr, lookupType: e.lookupType, inOld: e.inOld, parent: e}
}

func (e *Env) get(name string) (Val, bool) {
	for p := e; p != nil; p = p.parent {
		if v, ok := p.vars[name]; ok {
			return v, true
		}
	}
	return nil, false
}

var qctr int64

type evalErr string

type Evaluator struct {
	th    Theory
	vc    *VC
	pkg   *types.Package
	sigs  map[string]FuncSig
	deref func(p Ptr, old bool) Val   // read memory through a pointer
	slice func(s *SliceV, old bool) T // current array term of a slice
	// rs terms seen (for axiom instantiation)
	onRS func(v, e T)
	// decimal observer applications seen (for bridge-axiom instantiation)
	onDec func(lo, hi T)
	onBE  func(arr, off, n T)
	folds  map[string]*Fold
	onFold func(name string, arr, off, n T)
	typeTag func(name string) int
	// prev(e): value of e at the head of the innermost enclosing loop
	prev func(e Expr, env *Env) Val
	// structure of real-valued terms (for distributing rs over + - ite)
	lin  map[string][3]string // term -> (op, a, b)
	ites map[string][3]T
	reals map[string]T
}

func (ev *Evaluator) noteLin(res T, op string, a, b T) {
	if res.Sort.K != SReal {
		return
	}
	if ev.lin == nil {
		ev.lin = map[string][3]string{}
		ev.reals = map[string]T{}
	}
	ev.lin[res.S] = [3]string{op, a.S, b.S}
	ev.reals[a.S] = a
	ev.reals[b.S] = b
}

var decObservers = map[string]bool{"special": true, "isnan": true, "isinf": true, "sign": true, "coef": true, "bexp": true, "form2": true}

func (ev *Evaluator) fail(format string, a ...interface{}) {
	panic(evalErr(fmt.Sprintf(format, a...)))
}

func (ev *Evaluator) specOf(v Val) T {
	switch x := v.(type) {
	case Leaf:
		if x.MT != nil {
			return ev.th.ToSpec(x.T, *x.MT)
		}
		return x.T
	}
	ev.fail("expected scalar, got %T", v)
	return T{}
}

func (ev *Evaluator) boolOf(v Val) T {
	t := ev.specOf(v)
	if t.Sort.K != SBool {
		ev.fail("expected bool, got %s : %s", t.S, t.Sort)
	}
	return t
}

func flatten(v Val, out *[]Leaf) {
	switch x := v.(type) {
	case Leaf:
		*out = append(*out, x)
	case Agg:
		for _, e := range x.Elems {
			flatten(e, out)
		}
	default:
		panic(evalErr(fmt.Sprintf("cannot flatten %T", v)))
	}
}

func (ev *Evaluator) eqVals(a, b Val) T {
	switch x := a.(type) {
	case Agg:
		y, ok := b.(Agg)
		if !ok || len(x.Elems) != len(y.Elems) {
			ev.fail("comparing aggregate with non-aggregate")
		}
		var cs []T
		for i := range x.Elems {
			cs = append(cs, ev.eqVals(x.Elems[i], y.Elems[i]))
		}
		return mkAnd(cs...)
	case Leaf:
		y, ok := b.(Leaf)
		if !ok {
			ev.fail("comparing scalar with %T", b)
		}
		if x.MT != nil && y.MT != nil && *x.MT == *y.MT {
			return mkEq(x.T, y.T)
		}
		return mkEq(ev.specOf(x), ev.specOf(y))
	case Opaque:
		y, ok := b.(Opaque)
		if ok && x.Tag.S != "" && y.Tag.S != "" {
			return mkEq(x.Tag, y.Tag)
		}
	}
	ev.fail("cannot compare %T and %T", a, b)
	return T{}
}

func (ev *Evaluator) num(v *big.Int) Val { return Leaf{T: ev.th.SpecLit(v)} }

func (ev *Evaluator) weightedSum(a Val, n int) Val {
	ag, ok := a.(Agg)
	if !ok || len(ag.Elems) != n {
		ev.fail("u%d: expected array of %d words", 64*n, n)
	}
	sum := ev.th.SpecLit(big.NewInt(0))
	for i := 0; i < n; i++ {
		w := ev.specOf(ag.Elems[i])
		if i == 0 {
			sum = w
		} else {
			sum = ev.th.SpecAdd(sum, ev.th.SpecMul(ev.th.SpecLit(pow2(64*i)), w))
		}
	}
	return Leaf{T: sum}
}

func (ev *Evaluator) Eval(e Expr, env *Env) Val {
	switch x := e.(type) {
	case *ENum:
		if x.IsReal {
			return Leaf{T: T{S: ratLit(x.Rat), Sort: sortReal}}
		}
		return ev.num(x.V)
	case *EBool:
		return Leaf{T: boolT(x.V)}
	case *EIdent:
		if v, ok := env.get(x.Name); ok {
			return v
		}
		if env.inOld && env.lookupOld != nil {
			if v, ok := env.lookupOld(x.Name); ok {
				return v
			}
		}
		if env.lookupCur != nil {
			if v, ok := env.lookupCur(x.Name); ok {
				return v
			}
		}
		// package constant
		if ev.pkg != nil {
			if obj := ev.pkg.Scope().Lookup(x.Name); obj != nil {
				if c, ok := obj.(*types.Const); ok {
					if c.Val().Kind() == constant.Bool {
						return Leaf{T: boolT(constant.BoolVal(c.Val()))}
					}
					if bi, ok := constant.Val(constant.ToInt(c.Val())).(*big.Int); ok {
						return ev.num(bi)
					}
					if i64, ok := constant.Val(constant.ToInt(c.Val())).(int64); ok {
						return ev.num(big.NewInt(i64))
					}
				}
			}
		}
		if sig, ok := ev.sigs[x.Name]; ok && len(sig.Params) == 0 {
			return Leaf{T: T{S: x.Name, Sort: sig.Result}}
		}
		ev.fail("unknown identifier %s", x.Name)
	case *EUn:
		switch x.Op {
		case "!":
			return Leaf{T: mkNot(ev.boolOf(ev.Eval(x.X, env)))}
		case "-":
			t := ev.specOf(ev.Eval(x.X, env))
			if t.Sort.K == SBV {
				return Leaf{T: ev.th.SpecSub(ev.th.SpecLit(big.NewInt(0)), t)}
			}
			return Leaf{T: mkNeg(t)}
		case "*":
			pv := ev.Eval(x.X, env)
			if ps, isSet := pv.(PtrSet); isSet {
				res := ev.deref(ps.Ptrs[len(ps.Ptrs)-1], env.inOld)
				for k := len(ps.Ptrs) - 2; k >= 0; k-- {
					res = ev.iteVal(ps.Conds[k], ev.deref(ps.Ptrs[k], env.inOld), res)
				}
				return res
			}
			p, ok := pv.(Ptr)
			if !ok {
				ev.fail("deref of non-pointer (%T)", pv)
			}
			return ev.deref(p, env.inOld)
		}
		ev.fail("unary %s unsupported", x.Op)
	case *EBin:
		switch x.Op {
		case "&&":
			return Leaf{T: mkAnd(ev.boolOf(ev.Eval(x.L, env)), ev.boolOf(ev.Eval(x.R, env)))}
		case "||":
			return Leaf{T: mkOr(ev.boolOf(ev.Eval(x.L, env)), ev.boolOf(ev.Eval(x.R, env)))}
		case "==>":
			return Leaf{T: mkImp(ev.boolOf(ev.Eval(x.L, env)), ev.boolOf(ev.Eval(x.R, env)))}
		case "<==>":
			return Leaf{T: mkEq(ev.boolOf(ev.Eval(x.L, env)), ev.boolOf(ev.Eval(x.R, env)))}
		case "==":
			return Leaf{T: ev.eqVals(ev.Eval(x.L, env), ev.Eval(x.R, env))}
		case "!=":
			return Leaf{T: mkNot(ev.eqVals(ev.Eval(x.L, env), ev.Eval(x.R, env)))}
		}
		a := ev.specOf(ev.Eval(x.L, env))
		b := ev.specOf(ev.Eval(x.R, env))
		isBV := a.Sort.K == SBV || b.Sort.K == SBV
		switch x.Op {
		case "<", "<=", ">", ">=":
			if isBV {
				return Leaf{T: ev.th.SpecCmp(x.Op, a, b)}
			}
			return Leaf{T: mkCmp(x.Op, a, b)}
		case "+":
			if isBV {
				return Leaf{T: ev.th.SpecAdd(a, b)}
			}
			r := mkAdd(a, b)
			ev.noteLin(r, "+", realOfInt(a), realOfInt(b))
			return Leaf{T: r}
		case "-":
			if isBV {
				return Leaf{T: ev.th.SpecSub(a, b)}
			}
			r := mkSub(a, b)
			ev.noteLin(r, "-", realOfInt(a), realOfInt(b))
			return Leaf{T: r}
		case "*":
			if isBV {
				return Leaf{T: ev.th.SpecMul(a, b)}
			}
			return Leaf{T: mkMul(a, b)}
		case "/":
			if isBV {
				return Leaf{T: T{S: app("bvudiv", a, b), Sort: a.Sort}}
			}
			if a.Sort.K == SInt && b.Sort.K == SInt {
				if a.C != nil && b.C != nil && b.C.Sign() > 0 {
					q := new(big.Int).Div(a.C, b.C)
					return Leaf{T: intT(q)}
				}
				return Leaf{T: T{S: app("div", a, b), Sort: sortInt}}
			}
			return Leaf{T: mkRealDiv(a, b)}
		case "%":
			if isBV {
				return Leaf{T: T{S: app("bvurem", a, b), Sort: a.Sort}}
			}
			if a.C != nil && b.C != nil && b.C.Sign() > 0 {
				return Leaf{T: intT(new(big.Int).Mod(a.C, b.C))}
			}
			return Leaf{T: T{S: app("mod", a, b), Sort: sortInt}}
		case "&", "|", "^", "<<", ">>":
			if !isBV {
				ev.fail("bit operator %s only in bv mode", x.Op)
			}
			op := map[string]string{"&": "bvand", "|": "bvor", "^": "bvxor", "<<": "bvshl", ">>": "bvlshr"}[x.Op]
			return Leaf{T: T{S: app(op, a, b), Sort: a.Sort}}
		}
		ev.fail("binary %s unsupported", x.Op)
	case *EIndex:
		base := ev.Eval(x.X, env)
		idx := ev.specOf(ev.Eval(x.I, env))
		switch b := base.(type) {
		case Agg:
			if idx.C != nil {
				i := int(idx.C.Int64())
				if i < 0 || i >= len(b.Elems) {
					ev.fail("index %d out of range", i)
				}
				return b.Elems[i]
			}
			// symbolic: ite chain over leaves
			res := b.Elems[len(b.Elems)-1]
			for i := len(b.Elems) - 2; i >= 0; i-- {
				res = ev.iteVal(mkEq(idx, ev.th.SpecLit(big.NewInt(int64(i)))), b.Elems[i], res)
			}
			return res
		case *SliceV:
			arr := b.Arr
			if b.Back != nil {
				arr = ev.slice(b, env.inOld)
			}
			mt := b.Elem
			el := T{S: fmt.Sprintf("(select %s %s)", arr.S, mkAdd(b.Off, idx).S), Sort: sortInt}
			if ev.vc != nil && ev.th.Mode() == "int" {
				// type invariant of the element type (every element of a []byte is a byte)
				el = ev.vc.define("sel", el)
				ev.vc.assume(inRange(el, mt))
			}
			return Leaf{T: el, MT: &mt}
		case Ptr:
			return ev.Eval(&EIndex{X: &EUn{Op: "*", X: x.X}, I: x.I}, env)
		}
		ev.fail("cannot index %T", base)
	case *EField:
		base := ev.Eval(x.X, env)
		if p, ok := base.(Ptr); ok {
			base = ev.deref(p, env.inOld)
			return ev.fieldOf(base, p.Cell.Typ, p.Path, x.Name)
		}
		if id, ok := x.X.(*EIdent); ok && env.lookupPtr != nil && !env.inOld {
			if _, shadowed := env.get(id.Name); !shadowed {
				if p, ok := env.lookupPtr(id.Name); ok {
					return ev.fieldOf(ev.deref(p, false), p.Cell.Typ, p.Path, x.Name)
				}
			}
		}
		if id, ok := x.X.(*EIdent); ok && env.lookupType != nil {
			if t := env.lookupType(id.Name); t != nil {
				if _, isAgg := base.(Agg); isAgg {
					return ev.fieldOf(base, t, nil, x.Name)
				}
			}
		}
		ev.fail("field access needs typed value; use helper functions (got %T.%s)", base, x.Name)
	case *ELet:
		v := ev.Eval(x.Val, env)
		if l, ok := v.(Leaf); ok && ev.vc != nil {
			l.T = ev.vc.define("let_"+x.Name, l.T)
			v = l
		}
		return ev.Eval(x.Body, env.bind(x.Name, v))
	case *EQuant:
		lo := ev.specOf(ev.Eval(x.Lo, env))
		hi := ev.specOf(ev.Eval(x.Hi, env))
		if lo.C == nil || hi.C == nil {
			// symbolic range: a genuine SMT quantifier. No auxiliary constants may be introduced inside the
			// binder (they would capture the bound variable), so definitions are switched off for the body.
			if x.Sum || ev.th.Mode() != "int" {
				ev.fail("sum / bv-mode quantifier bounds must be constant")
			}
			kv := T{S: fmt.Sprintf("q!%s!%d", x.Var, atomic.AddInt64(&qctr, 1)), Sort: sortInt}
			saveVC := ev.vc
			ev.vc = nil
			body := ev.boolOf(ev.Eval(x.Body, env.bind(x.Var, Leaf{T: kv})))
			ev.vc = saveVC
			rng := fmt.Sprintf("(and (<= %s %s) (<= %s %s))", lo.S, kv.S, kv.S, hi.S)
			if x.Forall {
				// reads at the bare bound variable make good instantiation triggers; with none present the
				// solver chooses (arithmetic in an index makes poor triggers, so contracts are best written
				// over absolute positions)
				pats := ""
				seen := map[string]bool{}
				for _, m := range regexp.MustCompile(`\(select (\|[^|]*\||[^\s()|]+) `+regexp.QuoteMeta(kv.S)+`\)`).FindAllString(body.S, -1) {
					if !seen[m] {
						seen[m] = true
						pats += " :pattern (" + m + ")"
					}
				}
				if pats != "" {
					return Leaf{T: T{S: fmt.Sprintf("(forall ((%s Int)) (! (=> %s %s)%s))", kv.S, rng, body.S, pats), Sort: sortBool}}
				}
				return Leaf{T: T{S: fmt.Sprintf("(forall ((%s Int)) (=> %s %s))", kv.S, rng, body.S), Sort: sortBool}}
			}
			return Leaf{T: T{S: fmt.Sprintf("(exists ((%s Int)) (and %s %s))", kv.S, rng, body.S), Sort: sortBool}}
		}
		if x.Sum {
			acc := ev.th.SpecLit(big.NewInt(0))
			for i := new(big.Int).Set(lo.C); i.Cmp(hi.C) <= 0; i.Add(i, big.NewInt(1)) {
				t := ev.specOf(ev.Eval(x.Body, env.bind(x.Var, ev.num(new(big.Int).Set(i)))))
				if acc.Sort.K == SBV {
					acc = ev.th.SpecAdd(acc, t)
				} else {
					acc = mkAdd(acc, t)
				}
			}
			return Leaf{T: acc}
		}
		var parts []T
		for i := new(big.Int).Set(lo.C); i.Cmp(hi.C) <= 0; i.Add(i, big.NewInt(1)) {
			parts = append(parts, ev.boolOf(ev.Eval(x.Body, env.bind(x.Var, ev.num(new(big.Int).Set(i))))))
		}
		if x.Forall {
			return Leaf{T: mkAnd(parts...)}
		}
		return Leaf{T: mkOr(parts...)}
	case *ECall:
		return ev.call(x, env)
	}
	ev.fail("cannot evaluate %T", e)
	return nil
}

func ratLit(r *big.Rat) string {
	neg := r.Sign() < 0
	a := new(big.Rat).Abs(r)
	var s string
	if a.IsInt() {
		s = a.Num().String() + ".0"
	} else {
		s = "(/ " + a.Num().String() + ".0 " + a.Denom().String() + ".0)"
	}
	if neg {
		return "(- " + s + ")"
	}
	return s
}

func (ev *Evaluator) iteVal(c T, a, b Val) Val {
	switch x := a.(type) {
	case Leaf:
		y := b.(Leaf)
		if x.MT != nil && y.MT != nil && *x.MT == *y.MT {
			return Leaf{T: mkIte(c, x.T, y.T), MT: x.MT}
		}
		return Leaf{T: mkIte(c, ev.specOf(x), ev.specOf(y))}
	case Agg:
		y := b.(Agg)
		out := make([]Val, len(x.Elems))
		for i := range x.Elems {
			out[i] = ev.iteVal(c, x.Elems[i], y.Elems[i])
		}
		return Agg{Elems: out}
	}
	ev.fail("ite over %T", a)
	return nil
}

func (ev *Evaluator) fieldOf(base Val, root types.Type, path []PathElem, name string) Val {
	t := root
	for _, pe := range path {
		switch u := t.Underlying().(type) {
		case *types.Array:
			t = u.Elem()
		case *types.Struct:
			t = u.Field(pe.Const).Type()
		}
	}
	st, ok := t.Underlying().(*types.Struct)
	if !ok {
		ev.fail("field %s of non-struct %s", name, t)
	}
	ag := base.(Agg)
	for i := 0; i < st.NumFields(); i++ {
		if st.Field(i).Name() == name {
			return ag.Elems[i]
		}
	}
	ev.fail("no field %s", name)
	return nil
}

func (ev *Evaluator) call(x *ECall, env *Env) Val {
	switch x.Fn {
	case "old":
		e2 := *env
		e2.inOld = true
		e2.parent = env
		e2.vars = nil
		return ev.Eval(x.Args[0], &e2)
	case "be":
		// be(slice, n) or be(slice, from, n): big-endian value of n bytes of the slice starting at from
		sl, ok := ev.Eval(x.Args[0], env).(*SliceV)
		if !ok || ev.th.Mode() != "int" {
			ev.fail("be: expected a byte slice (int mode)")
		}
		arr := sl.Arr
		if sl.Back != nil {
			arr = ev.slice(sl, env.inOld)
		}
		off := sl.Off
		var n T
		if len(x.Args) == 3 {
			off = mkAdd(off, ev.specOf(ev.Eval(x.Args[1], env)))
			n = ev.specOf(ev.Eval(x.Args[2], env))
		} else {
			n = ev.specOf(ev.Eval(x.Args[1], env))
		}
		if ev.vc != nil {
			off = ev.vc.define("beoff", off)
			n = ev.vc.define("ben", n)
		}
		if ev.onBE != nil {
			ev.onBE(arr, off, n)
		}
		return Leaf{T: T{S: fmt.Sprintf("(be %s %s %s)", arr.S, off.S, n.S), Sort: sortInt}}
	case "prev":
		if ev.prev == nil {
			ev.fail("prev() is only available inside loop bodies")
		}
		return ev.prev(x.Args[0], env)
	case "u128":
		return ev.weightedSum(ev.Eval(x.Args[0], env), 2)
	case "u192":
		return ev.weightedSum(ev.Eval(x.Args[0], env), 3)
	case "u256":
		return ev.weightedSum(ev.Eval(x.Args[0], env), 4)
	case "u384":
		return ev.weightedSum(ev.Eval(x.Args[0], env), 6)
	case "lo", "hi":
		ag, ok := ev.Eval(x.Args[0], env).(Agg)
		if !ok || len(ag.Elems) != 2 {
			ev.fail("%s: expected two-word value", x.Fn)
		}
		if x.Fn == "lo" {
			return ag.Elems[0]
		}
		return ag.Elems[1]
	case "real":
		return Leaf{T: realOfInt(ev.specOf(ev.Eval(x.Args[0], env)))}
	case "ite":
		c := ev.boolOf(ev.Eval(x.Args[0], env))
		r := ev.iteVal(c, ev.Eval(x.Args[1], env), ev.Eval(x.Args[2], env))
		if l, ok := r.(Leaf); ok && l.T.Sort.K == SReal {
			a := ev.specOf(ev.Eval(x.Args[1], env))
			b := ev.specOf(ev.Eval(x.Args[2], env))
			if ev.ites == nil {
				ev.ites = map[string][3]T{}
			}
			ev.ites[l.T.S] = [3]T{c, realOfInt(a), realOfInt(b)}
		}
		return r
	case "len":
		v := ev.Eval(x.Args[0], env)
		switch s := v.(type) {
		case *SliceV:
			return Leaf{T: s.Len}
		case Agg:
			return ev.num(big.NewInt(int64(len(s.Elems))))
		}
		ev.fail("len of %T", v)
	case "cap":
		if s, ok := ev.Eval(x.Args[0], env).(*SliceV); ok {
			return Leaf{T: s.Cap}
		}
		ev.fail("cap of non-slice")
	case "tag":
		if o, ok := ev.Eval(x.Args[0], env).(Opaque); ok && o.Tag.S != "" {
			return Leaf{T: o.Tag}
		}
		ev.fail("tag of untagged value")
	case "arr":
		// arr(a): a fixed-size array of scalars as an SMT array (the same store chain the generator
		// builds when the code slices that array), so that a[k] with a bound variable k is a select
		ag, ok := ev.Eval(x.Args[0], env).(Agg)
		if !ok {
			ev.fail("arr: expected an array value")
		}
		t := T{S: "emptyArr", Sort: sortArr}
		for k, e := range ag.Elems {
			l, isLeaf := e.(Leaf)
			if !isLeaf {
				ev.fail("arr: array of non-scalars")
			}
			t = T{S: fmt.Sprintf("(store %s %d %s)", t.S, k, ev.specOf(l).S), Sort: sortArr}
		}
		if ev.vc != nil {
			t = ev.vc.define("snap", t)
		}
		return &SliceV{Arr: t, Off: intT64(0), Len: intT64(int64(len(ag.Elems))), Cap: intT64(int64(len(ag.Elems))), Elem: MT{8, false}, IsString: true}
	case "fbits":
		// the IEEE 754 bit pattern of a floating-point value
		f, ok := ev.Eval(x.Args[0], env).(FloatV)
		if !ok {
			ev.fail("fbits: expected a floating-point value")
		}
		return Leaf{T: f.Bits}
	case "ratnum", "ratden":
		// numerator / denominator of the *big.Rat a pointer refers to (math/big model)
		pv := ev.Eval(x.Args[0], env)
		var dv Val
		if ps, isSet := pv.(PtrSet); isSet {
			dv = ev.deref(ps.Ptrs[len(ps.Ptrs)-1], env.inOld)
			for k := len(ps.Ptrs) - 2; k >= 0; k-- {
				dv = ev.iteVal(ps.Conds[k], ev.deref(ps.Ptrs[k], env.inOld), dv)
			}
		} else if p, ok := pv.(Ptr); ok {
			dv = ev.deref(p, env.inOld)
		} else {
			ev.fail("%s: expected a *big.Rat", x.Fn)
		}
		ag, ok := dv.(Agg)
		if !ok || len(ag.Elems) != 2 {
			ev.fail("%s: not a modelled *big.Rat", x.Fn)
		}
		if x.Fn == "ratnum" {
			return ag.Elems[0]
		}
		return ag.Elems[1]
	case "fmtflag":
		// fmtflag(c): the flag c of the fmt.State handed to Format (trusted fmt model)
		c := ev.specOf(ev.Eval(x.Args[0], env))
		return Leaf{T: T{S: fmt.Sprintf("(fmtFlag %s)", c.S), Sort: sortBool}}
	case "fmtwid", "fmtprec":
		mt := MT{64, true}
		return Leaf{T: T{S: map[string]string{"fmtwid": "fmtWid", "fmtprec": "fmtPrec"}[x.Fn], Sort: sortInt}, MT: &mt}
	case "fmthaswid", "fmthasprec":
		return Leaf{T: T{S: map[string]string{"fmthaswid": "fmtHasWid", "fmthasprec": "fmtHasPrec"}[x.Fn], Sort: sortBool}}
	case "from":
		// from(s, k): the slice or string s[k:]
		sl, ok := ev.Eval(x.Args[0], env).(*SliceV)
		if !ok {
			ev.fail("from: expected a slice or string")
		}
		k := ev.specOf(ev.Eval(x.Args[1], env))
		cp := *sl
		cp.Off = mkAdd(sl.Off, k)
		cp.Len = mkSub(sl.Len, k)
		cp.Cap = mkSub(sl.Cap, k)
		return &cp
	case "typetag":
		// typetag("T") / typetag("*T"): the tag of a dynamic type of this package (compare with tag(err))
		st, ok := x.Args[0].(*EStr)
		if !ok || ev.typeTag == nil {
			ev.fail("typetag expects a string literal")
		}
		name := st.S
		if strings.ContainsAny(name, "./") {
			// fully qualified type of another package, e.g. "*encoding/json.UnmarshalTypeError"
		} else if strings.HasPrefix(name, "*") {
			name = "*" + ev.pkg.Path() + "." + name[1:]
		} else {
			name = ev.pkg.Path() + "." + name
		}
		return ev.num(big.NewInt(int64(ev.typeTag(name))))
	case "rs":
		if ev.th.Mode() != "int" {
			ev.fail("rs only in int mode")
		}
		v := ev.Eval(x.Args[0], env)
		e := ev.specOf(ev.Eval(x.Args[1], env))
		return Leaf{T: ev.rsApply(ev.specOf(v), e)}
	}
	if (x.Fn == "p10" || x.Fn == "pow2") && len(x.Args) == 1 && ev.th.Mode() == "int" {
		if a := ev.specOf(ev.Eval(x.Args[0], env)); a.C != nil && a.C.Sign() >= 0 && a.C.Cmp(big.NewInt(128)) <= 0 {
			base := int64(10)
			if x.Fn == "pow2" {
				base = 2
			}
			if x.Fn == "p10" && a.C.Cmp(big.NewInt(78)) > 0 {
				return ev.num(new(big.Int).Exp(big.NewInt(10), big.NewInt(78), nil))
			}
			return ev.num(new(big.Int).Exp(big.NewInt(base), a.C, nil))
		}
	}
	if f, isFold := ev.folds[x.Fn]; isFold {
		if (len(x.Args) != 2 && len(x.Args) != 1) || ev.th.Mode() != "int" {
			ev.fail("%s: expected (sequence, count) or (count) in int mode", x.Fn)
		}
		// one argument: a fold that does not look at the sequence (a recursion on the count alone)
		arr, off := T{S: "emptyArr", Sort: sortArr}, intT64(0)
		if len(x.Args) == 2 {
			sl, ok := ev.Eval(x.Args[0], env).(*SliceV)
			if !ok {
				ev.fail("%s: first argument must be a byte slice or string", x.Fn)
			}
			arr = sl.Arr
			if sl.Back != nil {
				arr = ev.slice(sl, env.inOld)
			}
			off = sl.Off
		}
		n := ev.specOf(ev.Eval(x.Args[len(x.Args)-1], env))
		if ev.vc != nil {
			off = ev.vc.define("foldoff", off)
			n = ev.vc.define("foldn", n)
		}
		if ev.onFold != nil {
			ev.onFold(f.Name, arr, off, n)
		}
		return Leaf{T: T{S: fmt.Sprintf("(fold_%s %s %s %s)", f.Name, arr.S, off.S, n.S), Sort: sortInt}}
	}
	sig, ok := ev.sigs[x.Fn]
	if !ok {
		ev.fail("unknown spec function %s", x.Fn)
	}
	var leaves []Leaf
	for _, a := range x.Args {
		flatten(ev.Eval(a, env), &leaves)
	}
	if len(leaves) != len(sig.Params) {
		ev.fail("%s: expected %d scalar arguments, got %d", x.Fn, len(sig.Params), len(leaves))
	}
	args := make([]T, len(leaves))
	for i, l := range leaves {
		var t T
		ps := sig.Params[i]
		if l.MT != nil && ps.K == SBV && ps.W == l.MT.W {
			t = l.T // machine-level argument
		} else {
			t = ev.specOf(l)
		}
		if ps.K == SReal && t.Sort.K == SInt {
			t = realOfInt(t)
		}
		if t.Sort != ps {
			ev.fail("%s: argument %d has sort %s, want %s", x.Fn, i+1, t.Sort, ps)
		}
		args[i] = t
	}
	if len(args) == 0 {
		return Leaf{T: T{S: x.Fn, Sort: sig.Result}}
	}
	if decObservers[x.Fn] && len(args) == 2 && ev.onDec != nil {
		ev.onDec(args[0], args[1])
	}
	return Leaf{T: T{S: app(x.Fn, args...), Sort: sig.Result}}
}

// rsApply builds rs(v, e) with v normalised to atoms: rs distributes over
// + - and constant multiples (real-arithmetic identities of v / 10^e).
func (ev *Evaluator) rsApply(v, e T) T {
	v = realOfInt(v)
	if ev.vc != nil {
		e = ev.vc.define("rse", e)
	}
	if l, ok := ev.lin[v.S]; ok {
		a := ev.rsApply(ev.reals[l[1]], e)
		b := ev.rsApply(ev.reals[l[2]], e)
		if l[0] == "+" {
			return mkAdd(a, b)
		}
		return mkSub(a, b)
	}
	if it, ok := ev.ites[v.S]; ok {
		return mkIte(it[0], ev.rsApply(it[1], e), ev.rsApply(it[2], e))
	}
	if v.S == "0.0" {
		return v
	}
	if ev.vc != nil {
		v = ev.vc.define("rsv", v)
	}
	if ev.onRS != nil {
		ev.onRS(v, e)
	}
	return T{S: fmt.Sprintf("(rs %s %s)", v.S, e.S), Sort: sortReal}
}
