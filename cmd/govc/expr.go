package main

import (
	"fmt"
	"math/big"
	"strings"
	"unicode"
)

// Contract expression AST.
type Expr interface{}

type (
	EIdent struct{ Name string }
	ENum   struct {
		V      *big.Int
		IsReal bool
		Rat    *big.Rat
	}
	EBool struct{ V bool }
	ECall struct {
		Fn   string
		Args []Expr
	}
	EIndex struct{ X, I Expr }
	EField struct {
		X    Expr
		Name string
	}
	EUn struct {
		Op string
		X  Expr
	}
	EBin struct {
		Op   string
		L, R Expr
	}
	EQuant struct {
		Forall bool
		Sum    bool
		Var    string
		Lo, Hi Expr // inclusive bounds; expanded when constant
		Body   Expr
	}
	ELet struct {
		Name string
		Val  Expr
		Body Expr
	}
	EStr struct{ S string }
)

type tok struct {
	k string // "id", "num", "op", "str", "eof"
	s string
}

func lexExpr(src string) ([]tok, error) {
	var toks []tok
	i := 0
	for i < len(src) {
		c := src[i]
		switch {
		case c == ' ' || c == '\t' || c == '\n':
			i++
		case unicode.IsLetter(rune(c)) || c == '_' || c == '$':
			j := i + 1
			for j < len(src) && (unicode.IsLetter(rune(src[j])) || unicode.IsDigit(rune(src[j])) || src[j] == '_' || src[j] == '$') {
				j++
			}
			toks = append(toks, tok{"id", src[i:j]})
			i = j
		case unicode.IsDigit(rune(c)):
			j := i + 1
			for j < len(src) && (unicode.IsDigit(rune(src[j])) || unicode.IsLetter(rune(src[j])) || src[j] == '_' || (src[j] == '.' && j+1 < len(src) && unicode.IsDigit(rune(src[j+1])))) {
				j++
			}
			toks = append(toks, tok{"num", src[i:j]})
			i = j
		case c == '"':
			j := i + 1
			for j < len(src) && src[j] != '"' {
				j++
			}
			if j >= len(src) {
				return nil, fmt.Errorf("unterminated string")
			}
			toks = append(toks, tok{"str", src[i+1 : j]})
			i = j + 1
		default:
			ops := []string{"<==>", "==>", "&&", "||", "==", "!=", "<=", ">=", "<<", ">>", "..", "+", "-", "*", "/", "%", "<", ">", "!", "(", ")", "[", "]", ",", ".", ":", "?", "{", "}", "=", "&", "|", "^"}
			matched := false
			for _, op := range ops {
				if strings.HasPrefix(src[i:], op) {
					toks = append(toks, tok{"op", op})
					i += len(op)
					matched = true
					break
				}
			}
			if !matched {
				return nil, fmt.Errorf("unexpected character %q in %q", c, src)
			}
		}
	}
	toks = append(toks, tok{"eof", ""})
	return toks, nil
}

type parser struct {
	toks []tok
	p    int
	src  string
}

func parseExpr(src string) (e Expr, err error) {
	toks, err := lexExpr(src)
	if err != nil {
		return nil, err
	}
	ps := &parser{toks: toks, src: src}
	defer func() {
		if r := recover(); r != nil {
			if pe, ok := r.(parseErr); ok {
				err = fmt.Errorf("%s in %q", string(pe), src)
				return
			}
			panic(r)
		}
	}()
	e = ps.expr(0)
	if ps.peek().k != "eof" {
		ps.fail("trailing tokens at " + ps.peek().s)
	}
	return e, nil
}

type parseErr string

func (ps *parser) fail(msg string) { panic(parseErr(msg)) }
func (ps *parser) peek() tok       { return ps.toks[ps.p] }
func (ps *parser) next() tok       { t := ps.toks[ps.p]; ps.p++; return t }
func (ps *parser) isOp(s string) bool {
	t := ps.peek()
	return t.k == "op" && t.s == s
}
func (ps *parser) expect(s string) {
	if !ps.isOp(s) {
		ps.fail("expected " + s + " got " + ps.peek().s)
	}
	ps.p++
}

var binPrec = map[string]int{
	"<==>": 1, "==>": 2, "||": 3, "&&": 4,
	"==": 5, "!=": 5, "<": 5, "<=": 5, ">": 5, ">=": 5,
	"+": 6, "-": 6, "|": 6, "^": 6,
	"*": 7, "/": 7, "%": 7, "<<": 7, ">>": 7, "&": 7,
}

func (ps *parser) expr(minPrec int) Expr {
	// quantifiers / let bind loosest
	if t := ps.peek(); t.k == "id" && t.s == "sum" && ps.toks[ps.p+1].k == "id" {
		ps.next()
		v := ps.next().s
		if !(ps.peek().k == "id" && ps.peek().s == "in") {
			ps.fail("expected 'in' in sum")
		}
		ps.next()
		lo := ps.expr(6)
		ps.expect("..")
		hi := ps.expr(6)
		ps.expect(":")
		body := ps.expr(6)
		return ps.binTail(&EQuant{Sum: true, Var: v, Lo: lo, Hi: hi, Body: body}, minPrec)
	}
	if t := ps.peek(); t.k == "id" && (t.s == "forall" || t.s == "exists") && ps.toks[ps.p+1].k == "id" {
		ps.next()
		v := ps.next().s
		if !(ps.peek().k == "id" && ps.peek().s == "in") {
			ps.fail("expected 'in' in quantifier")
		}
		ps.next()
		lo := ps.expr(6)
		ps.expect("..")
		hi := ps.expr(6)
		ps.expect(":")
		body := ps.expr(0)
		return &EQuant{Forall: t.s == "forall", Var: v, Lo: lo, Hi: hi, Body: body}
	}
	if t := ps.peek(); t.k == "id" && t.s == "let" {
		ps.next()
		name := ps.next().s
		ps.expect("=")
		val := ps.expr(3)
		if !(ps.peek().k == "id" && ps.peek().s == "in") {
			ps.fail("expected 'in' in let")
		}
		ps.next()
		body := ps.expr(0)
		return &ELet{Name: name, Val: val, Body: body}
	}
	lhs := ps.unary()
	return ps.binTail(lhs, minPrec)
}

func (ps *parser) binTail(lhs Expr, minPrec int) Expr {
	for {
		t := ps.peek()
		if t.k != "op" {
			break
		}
		prec, ok := binPrec[t.s]
		if !ok || prec < minPrec {
			break
		}
		ps.next()
		var rhs Expr
		if t.s == "==>" || t.s == "<==>" {
			rhs = ps.expr(prec) // right assoc
		} else {
			rhs = ps.expr(prec + 1)
		}
		lhs = &EBin{Op: t.s, L: lhs, R: rhs}
	}
	return lhs
}

func (ps *parser) unary() Expr {
	t := ps.peek()
	if t.k == "op" && (t.s == "!" || t.s == "-" || t.s == "*" || t.s == "^") {
		ps.next()
		x := ps.unary()
		return &EUn{Op: t.s, X: x}
	}
	return ps.postfix(ps.primary())
}

func (ps *parser) postfix(x Expr) Expr {
	for {
		switch {
		case ps.isOp("["):
			ps.next()
			i := ps.expr(0)
			ps.expect("]")
			x = &EIndex{X: x, I: i}
		case ps.isOp("."):
			ps.next()
			n := ps.next()
			if n.k != "id" {
				ps.fail("expected field name")
			}
			x = &EField{X: x, Name: n.s}
		default:
			return x
		}
	}
}

func (ps *parser) primary() Expr {
	t := ps.next()
	switch t.k {
	case "num":
		s := strings.ReplaceAll(t.s, "_", "")
		if strings.Contains(s, ".") && !strings.HasPrefix(s, "0x") {
			r, ok := new(big.Rat).SetString(s)
			if !ok {
				ps.fail("bad number " + t.s)
			}
			return &ENum{IsReal: true, Rat: r}
		}
		// allow 1e19 style
		if !strings.HasPrefix(s, "0x") && strings.ContainsAny(s, "eE") {
			r, ok := new(big.Rat).SetString(s)
			if !ok || !r.IsInt() {
				ps.fail("bad number " + t.s)
			}
			return &ENum{V: new(big.Int).Set(r.Num())}
		}
		v, ok := new(big.Int).SetString(s, 0)
		if !ok {
			ps.fail("bad number " + t.s)
		}
		return &ENum{V: v}
	case "str":
		return &EStr{S: t.s}
	case "id":
		if t.s == "true" {
			return &EBool{true}
		}
		if t.s == "false" {
			return &EBool{false}
		}
		if ps.isOp("(") {
			ps.next()
			var args []Expr
			if !ps.isOp(")") {
				for {
					args = append(args, ps.expr(0))
					if ps.isOp(",") {
						ps.next()
						continue
					}
					break
				}
			}
			ps.expect(")")
			return &ECall{Fn: t.s, Args: args}
		}
		return &EIdent{Name: t.s}
	case "op":
		if t.s == "(" {
			e := ps.expr(0)
			ps.expect(")")
			return e
		}
	}
	ps.fail("unexpected token " + t.s)
	return nil
}
