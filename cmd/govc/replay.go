package main

import (
	"bytes"
	"context"
	"encoding/json"
	"fmt"
	"math/big"
	"os"
	"os/exec"
	"path/filepath"
	"regexp"
	"strings"
	"sync"
	"time"
)

var replayMu sync.Mutex
var replaySeq int

// parseModel reads "((|a| v) (|b| v) ...)" as printed by get-value.
func parseModel(s string) map[string]string {
	out := map[string]string{}
	i := strings.Index(s, "((")
	if i < 0 {
		return out
	}
	s = s[i+1:]
	depth := 0
	start := -1
	for k := 0; k < len(s); k++ {
		switch s[k] {
		case '|':
			// skip quoted symbol
			j := strings.IndexByte(s[k+1:], '|')
			if j < 0 {
				return out
			}
			k += j + 1
		case '(':
			if depth == 0 {
				start = k
			}
			depth++
		case ')':
			depth--
			if depth == 0 && start >= 0 {
				item := strings.TrimSpace(s[start+1 : k])
				// item = name value
				var name, val string
				if strings.HasPrefix(item, "|") {
					j := strings.IndexByte(item[1:], '|')
					name = item[:j+2]
					val = strings.TrimSpace(item[j+2:])
				} else {
					f := strings.SplitN(item, " ", 2)
					if len(f) == 2 {
						name, val = "|"+f[0]+"|", strings.TrimSpace(f[1])
					}
				}
				if name != "" {
					out[name] = val
				}
				start = -1
			}
			if depth < 0 {
				return out
			}
		}
	}
	return out
}

var negRe = regexp.MustCompile(`^\(-\s*(\d+)\)$`)
var bvLitRe = regexp.MustCompile(`^\(_ bv(\d+) (\d+)\)$`)

// smtIntValue parses an SMT integer or bit-vector literal.
func smtIntValue(v string) (*big.Int, bool) {
	v = strings.TrimSpace(v)
	if m := negRe.FindStringSubmatch(v); m != nil {
		n, _ := new(big.Int).SetString(m[1], 10)
		return n.Neg(n), true
	}
	if strings.HasPrefix(v, "#x") {
		n, ok := new(big.Int).SetString(v[2:], 16)
		return n, ok
	}
	if strings.HasPrefix(v, "#b") {
		n, ok := new(big.Int).SetString(v[2:], 2)
		return n, ok
	}
	if m := bvLitRe.FindStringSubmatch(v); m != nil {
		n, ok := new(big.Int).SetString(m[1], 10)
		return n, ok
	}
	n, ok := new(big.Int).SetString(v, 10)
	return n, ok
}

var goWidths = map[string]MT{"uint8": {8, false}, "uint16": {16, false}, "uint32": {32, false}, "uint64": {64, false}, "uint": {64, false},
	"int8": {8, true}, "int16": {16, true}, "int32": {32, true}, "int64": {64, true}, "int": {64, true}, "uintptr": {64, false}}

func goLiteral(val string, typ string) (string, bool) {
	if typ == "bool" {
		if val == "true" || val == "false" {
			return val, true
		}
		return "", false
	}
	mt, ok := goWidths[typ]
	if !ok {
		return "", false
	}
	n, ok := smtIntValue(val)
	if !ok {
		return "", false
	}
	n = mt.Wrap(n)
	return fmt.Sprintf("%s(%s)", typ, n.String()), true
}

// replayObligation runs the real function on the inputs of the solver's model (in-package test
// injected with -overlay, nothing is written to the repository) and checks that the outputs it
// actually produces are consistent with the refutation: the obligation's negation must remain
// satisfiable with inputs and outputs pinned to the observed values.
func replayObligation(w *World, prop string, o *Obligation, detail map[string]interface{}) bool {
	if o.Result == nil || o.Result.Status != "sat" || o.Kind != "ensures" || len(o.ResultLeaves) == 0 {
		return false
	}
	fn := w.funcs[o.Func]
	if fn == nil || fn.TypeParams().Len() > 0 || len(fn.TypeArgs()) > 0 {
		return false
	}
	model := parseModel(o.Result.Model)
	var sb strings.Builder
	sb.WriteString("package " + w.tpkg.Name() + "\n\nimport (\n\t\"fmt\"\n\t\"testing\"\n)\n\n")
	sb.WriteString("func TestVerifReplay(t *testing.T) {\n\tdefer func() {\n\t\tif r := recover(); r != nil {\n\t\t\tfmt.Printf(\"REPLAY-PANIC %v\\n\", r)\n\t\t}\n\t}()\n")
	inputs := map[string]string{}
	var pins []string
	var args []string
	recv := ""
	for k, p := range o.Params {
		if p.Unsupported != "" {
			detail["replay"] = "not replayed: " + p.Unsupported + " (" + p.Name + ")"
			return false
		}
		v := fmt.Sprintf("p%d", k)
		sb.WriteString(fmt.Sprintf("\tvar %s %s\n", v, p.GoType))
		for _, l := range p.Leaves {
			val, ok := model[l.Term]
			if !ok {
				if isAtom(l.Term) && strings.HasPrefix(l.Term, "|") {
					detail["replay"] = "not replayed: model has no value for " + l.Term
					return false
				}
				val = l.Term
			}
			lit, ok := goLiteral(val, l.Type)
			if !ok {
				detail["replay"] = "not replayed: cannot convert model value " + val
				return false
			}
			if l.Path == "" {
				sb.WriteString(fmt.Sprintf("\t%s = %s(%s)\n", v, p.GoType, lit))
			} else {
				sb.WriteString(fmt.Sprintf("\t%s%s = %s\n", v, l.Path, lit))
			}
			inputs[p.Name+l.Path] = val
			pins = append(pins, fmt.Sprintf("(assert (= %s %s))", l.Term, val))
		}
		if p.Receiver {
			recv = v
		} else {
			args = append(args, v)
		}
	}
	nres := fn.Signature.Results().Len()
	var rs []string
	for k := 0; k < nres; k++ {
		rs = append(rs, fmt.Sprintf("r%d", k))
	}
	call := fn.Name() + "(" + strings.Join(args, ", ") + ")"
	if recv != "" {
		call = recv + "." + call
	}
	if nres > 0 {
		sb.WriteString("\t" + strings.Join(rs, ", ") + " := " + call + "\n")
	} else {
		sb.WriteString("\t" + call + "\n")
	}
	for _, l := range o.ResultLeaves {
		sb.WriteString(fmt.Sprintf("\tfmt.Printf(\"REPLAY-LEAF %%s %%v\\n\", %q, %s)\n", l.Path, l.Path))
	}
	sb.WriteString("}\n")

	replayMu.Lock()
	replaySeq++
	seq := replaySeq
	replayMu.Unlock()
	dir := filepath.Join(w.verif, "work", "replay")
	os.MkdirAll(dir, 0o755)
	testFile := filepath.Join(dir, fmt.Sprintf("replay_%d_test.go", seq))
	os.WriteFile(testFile, []byte(sb.String()), 0o644)
	ov := filepath.Join(dir, fmt.Sprintf("ov_%d.json", seq))
	ovData, _ := json.Marshal(map[string]map[string]string{"Replace": {filepath.Join(w.repo, "zz_verif_replay_test.go"): testFile}})
	os.WriteFile(ov, ovData, 0o644)
	ctx, cancel := context.WithTimeout(context.Background(), 120*time.Second)
	defer cancel()
	cmd := exec.CommandContext(ctx, "go", "test", "-overlay", ov, "-vet=off", "-timeout", "60s", "-run", "^TestVerifReplay$", "-count=1", "-v", ".")
	cmd.Dir = w.repo
	cmd.Env = append(os.Environ(), "GOFLAGS=-mod=mod", "GOPROXY=off", "GOSUMDB=off", "GOTOOLCHAIN=local")
	var buf bytes.Buffer
	cmd.Stdout = &buf
	cmd.Stderr = &buf
	cmd.Run()
	out := buf.String()
	detail["replay_inputs"] = inputs
	detail["replay_test_source"] = testFile
	if len(out) > 4000 {
		out = out[:4000]
	}
	detail["replay_output"] = out
	observed := map[string]string{}
	for _, line := range strings.Split(out, "\n") {
		if strings.HasPrefix(line, "REPLAY-LEAF ") {
			f := strings.Fields(line)
			if len(f) == 3 {
				observed[f[1]] = f[2]
			}
		}
	}
	detail["replay_observed"] = observed
	if strings.Contains(out, "REPLAY-PANIC") {
		detail["replay"] = "the real function panicked on the model's inputs"
		return true
	}
	if len(observed) != len(o.ResultLeaves) {
		detail["replay"] = "replay test did not produce all outputs"
		return false
	}
	// pin outputs
	for _, l := range o.ResultLeaves {
		obs := observed[l.Path]
		var lit string
		if l.Type == "bool" {
			lit = obs
		} else {
			n, ok := new(big.Int).SetString(obs, 10)
			if !ok {
				return false
			}
			if o.vc.Mode == "bv" {
				lit = bvT(n, goWidths[l.Type].W).S
			} else {
				lit = intLit(n)
			}
		}
		pins = append(pins, fmt.Sprintf("(assert (= %s %s))", l.Term, lit))
	}
	text := o.SMT(w.prelude[o.vc.Mode], false)
	if i := strings.LastIndex(text, "(check-sat)"); i >= 0 {
		text = text[:i]
	}
	text += strings.Join(pins, "\n") + "\n(check-sat)\n"
	pinFile := filepath.Join(dir, fmt.Sprintf("pinned_%d.smt2", seq))
	os.WriteFile(pinFile, []byte(text), 0o644)
	st, _, _ := runSolver(solvers[0], pinFile, 30)
	detail["replay_pinned_query"] = pinFile
	detail["replay_pinned_status"] = st
	if st == "sat" {
		detail["replay"] = "confirmed: the real function, called with the model's inputs, returns outputs for which the postcondition is violated"
		return true
	}
	detail["replay"] = "the outputs of the real function on the model's inputs do not violate the clause (" + st + "): the refutation concerns an abstraction (loop or callee contract), no failing input found"
	return false
}

var safetyKinds = map[string]bool{"bounds": true, "div64": true, "slicebounds": true, "makeslice": true, "div": true, "shift": true, "nil": true}

// replaySweep handles refuted obligations that are not postconditions (invariants, assertions, callee
// preconditions, call arguments, safety conditions): the model still names inputs of the function, so
// the real function is run on them. A panic confirms a refuted safety condition; otherwise the outputs
// actually returned are checked against every postcondition of the function (each one's negation must
// be satisfiable with inputs and outputs pinned). Nothing is reported as confirmed unless the real code
// misbehaves on the concrete input.
func replaySweep(w *World, o *Obligation, all []*Obligation, detail map[string]interface{}) bool {
	if o.Result == nil || o.Result.Status != "sat" || o.Kind == "ensures" || o.MustFail || o.vc == nil {
		return false
	}
	fn := w.funcs[o.Func]
	if fn == nil || fn.TypeParams().Len() > 0 || len(fn.TypeArgs()) > 0 || len(o.vc.Params) == 0 {
		return false
	}
	var ens []*Obligation
	for _, e := range all {
		if e.Func == o.Func && e.Kind == "ensures" && len(e.ResultLeaves) > 0 && e.vc == o.vc {
			ens = append(ens, e)
		}
	}
	if len(ens) == 0 && !safetyKinds[o.Kind] {
		return false
	}
	model := parseModel(o.Result.Model)
	var sb strings.Builder
	sb.WriteString("package " + w.tpkg.Name() + "\n\nimport (\n\t\"fmt\"\n\t\"testing\"\n)\n\n")
	sb.WriteString("func TestVerifReplay(t *testing.T) {\n\tdefer func() {\n\t\tif r := recover(); r != nil {\n\t\t\tfmt.Printf(\"REPLAY-PANIC %v\\n\", r)\n\t\t}\n\t}()\n")
	inputs := map[string]string{}
	var pins, args []string
	recv := ""
	for k, p := range o.vc.Params {
		if p.Unsupported != "" {
			return false
		}
		v := fmt.Sprintf("p%d", k)
		sb.WriteString(fmt.Sprintf("\tvar %s %s\n", v, p.GoType))
		for _, l := range p.Leaves {
			val, ok := model[l.Term]
			if !ok {
				if isAtom(l.Term) && strings.HasPrefix(l.Term, "|") {
					// not in the cone of this obligation: any value will do
					val = "0"
					if l.Type == "bool" {
						val = "false"
					}
				} else {
					val = l.Term
				}
			}
			lit, ok := goLiteral(val, l.Type)
			if !ok {
				return false
			}
			if l.Path == "" {
				sb.WriteString(fmt.Sprintf("\t%s = %s(%s)\n", v, p.GoType, lit))
			} else {
				sb.WriteString(fmt.Sprintf("\t%s%s = %s\n", v, l.Path, lit))
			}
			inputs[p.Name+l.Path] = val
			pins = append(pins, fmt.Sprintf("(assert (= %s %s))", l.Term, val))
		}
		if p.Receiver {
			recv = v
		} else {
			args = append(args, v)
		}
	}
	nres := fn.Signature.Results().Len()
	var rs []string
	for k := 0; k < nres; k++ {
		rs = append(rs, fmt.Sprintf("r%d", k))
	}
	call := fn.Name() + "(" + strings.Join(args, ", ") + ")"
	if recv != "" {
		call = recv + "." + call
	}
	if nres > 0 {
		sb.WriteString("\t" + strings.Join(rs, ", ") + " := " + call + "\n")
		for _, r := range rs {
			sb.WriteString("\t_ = " + r + "\n")
		}
	} else {
		sb.WriteString("\t" + call + "\n")
	}
	if len(ens) > 0 {
		for _, l := range ens[0].ResultLeaves {
			sb.WriteString(fmt.Sprintf("\tfmt.Printf(\"REPLAY-LEAF %%s %%v\\n\", %q, %s)\n", l.Path, l.Path))
		}
	}
	sb.WriteString("}\n")
	replayMu.Lock()
	replaySeq++
	seq := replaySeq
	replayMu.Unlock()
	dir := filepath.Join(w.verif, "work", "replay")
	os.MkdirAll(dir, 0o755)
	testFile := filepath.Join(dir, fmt.Sprintf("replay_%d_test.go", seq))
	os.WriteFile(testFile, []byte(sb.String()), 0o644)
	ov := filepath.Join(dir, fmt.Sprintf("ov_%d.json", seq))
	ovData, _ := json.Marshal(map[string]map[string]string{"Replace": {filepath.Join(w.repo, "zz_verif_replay_test.go"): testFile}})
	os.WriteFile(ov, ovData, 0o644)
	ctx, cancel := context.WithTimeout(context.Background(), 120*time.Second)
	defer cancel()
	cmd := exec.CommandContext(ctx, "go", "test", "-overlay", ov, "-vet=off", "-timeout", "60s", "-run", "^TestVerifReplay$", "-count=1", "-v", ".")
	cmd.Dir = w.repo
	cmd.Env = append(os.Environ(), "GOFLAGS=-mod=mod", "GOPROXY=off", "GOSUMDB=off", "GOTOOLCHAIN=local")
	var buf bytes.Buffer
	cmd.Stdout = &buf
	cmd.Stderr = &buf
	cmd.Run()
	out := buf.String()
	if len(out) > 4000 {
		out = out[:4000]
	}
	detail["replay_inputs"] = inputs
	detail["replay_test_source"] = testFile
	detail["replay_output"] = out
	hasPanicsClause := false
	if c := w.contracts.Funcs[o.Func]; c != nil && c.HasPanics {
		hasPanicsClause = true
	}
	if strings.Contains(out, "REPLAY-PANIC") {
		if safetyKinds[o.Kind] || !hasPanicsClause {
			detail["replay"] = "confirmed: the real function panics on the model's inputs"
			return true
		}
		detail["replay"] = "the real function panics on the model's inputs, which its contract allows for some inputs; not counted as confirmation"
		return false
	}
	if strings.Contains(out, "panic: test timed out") {
		detail["replay"] = "confirmed: the real function does not return on the model's inputs within 60 s"
		return true
	}
	observed := map[string]string{}
	for _, line := range strings.Split(out, "\n") {
		if strings.HasPrefix(line, "REPLAY-LEAF ") {
			f := strings.Fields(line)
			if len(f) == 3 {
				observed[f[1]] = f[2]
			}
		}
	}
	detail["replay_observed"] = observed
	if len(ens) == 0 || len(observed) != len(ens[0].ResultLeaves) {
		detail["replay"] = "the real function returned normally on the model's inputs; no postcondition could be evaluated on its outputs"
		return false
	}
	if len(ens) > 40 {
		ens = ens[:40]
	}
	for _, e := range ens {
		epins := append([]string{}, pins...)
		okPins := true
		for _, l := range e.ResultLeaves {
			obs := observed[l.Path]
			var lit string
			if l.Type == "bool" {
				lit = obs
			} else {
				n, ok := new(big.Int).SetString(obs, 10)
				if !ok {
					okPins = false
					break
				}
				if e.vc.Mode == "bv" {
					lit = bvT(n, goWidths[l.Type].W).S
				} else {
					lit = intLit(n)
				}
			}
			epins = append(epins, fmt.Sprintf("(assert (= %s %s))", l.Term, lit))
		}
		if !okPins {
			continue
		}
		text := e.SMT(w.prelude[e.vc.Mode], false)
		if i := strings.LastIndex(text, "(check-sat)"); i >= 0 {
			text = text[:i]
		}
		text += strings.Join(epins, "\n") + "\n(check-sat)\n"
		pinFile := filepath.Join(dir, fmt.Sprintf("pinned_%d_%s.smt2", seq, identSan.ReplaceAllString(e.ID, "_")))
		os.WriteFile(pinFile, []byte(text), 0o644)
		st, _, _ := runSolver(solvers[0], pinFile, 10)
		if st == "sat" {
			detail["replay_pinned_query"] = pinFile
			detail["replay_violated_postcondition"] = e.ID + ": " + e.Note
			detail["replay"] = "confirmed: the real function, called with the model's inputs, returns outputs that violate its postcondition " + e.ID
			return true
		}
		os.Remove(pinFile)
	}
	detail["replay"] = "the real function, run on the model's inputs, satisfies all its postconditions: the refutation concerns an intermediate condition (invariant, assertion, callee contract); no failing input found"
	return false
}
