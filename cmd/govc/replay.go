package main

// replayObligation: placeholder until the oracle harness is wired in.
func replayObligation(w *World, prop string, o *Obligation, detail map[string]interface{}) bool {
	return false
}
