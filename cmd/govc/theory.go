package main

import (
	"fmt"
	"go/token"
	"math/big"
)

// MT is a machine integer type.
type MT struct {
	W      int
	Signed bool
}

func (m MT) String() string {
	if m.Signed {
		return fmt.Sprintf("int%d", m.W)
	}
	return fmt.Sprintf("uint%d", m.W)
}

func (m MT) Min() *big.Int {
	if m.Signed {
		return new(big.Int).Neg(pow2(m.W - 1))
	}
	return big.NewInt(0)
}

func (m MT) Max() *big.Int {
	if m.Signed {
		return new(big.Int).Sub(pow2(m.W-1), big.NewInt(1))
	}
	return new(big.Int).Sub(pow2(m.W), big.NewInt(1))
}

// wrap v into the machine type
func (m MT) Wrap(v *big.Int) *big.Int {
	r := new(big.Int).Mod(v, pow2(m.W))
	if m.Signed && r.Cmp(pow2(m.W-1)) >= 0 {
		r.Sub(r, pow2(m.W))
	}
	return r
}

// side is the interface the theories use to talk back to the executor.
type side interface {
	VC() *VC
	// sideOblige registers an automatically generated safety obligation at the
	// current instruction; returns true if the obligation was waived by the contract
	// (then the theory must use the wrapping semantics).
	sideOblige(kind string, goal T) (waived bool)
}

type Theory interface {
	Mode() string
	Sort(m MT) Sort
	Lit(v *big.Int, m MT) T
	Range(t T, m MT) T
	Bin(x side, op token.Token, a, b T, m MT) T
	Shift(x side, op token.Token, a T, m MT, cnt T, cm MT) T
	Cmp(op token.Token, a, b T, m MT) T
	Not(x side, a T, m MT) T
	Neg(x side, a T, m MT) T
	Conv(x side, a T, from, to MT) T
	Add64(x side, a, b, c T) (T, T)
	Sub64(x side, a, b, c T) (T, T)
	Mul64(x side, a, b T) (T, T)
	Div64(x side, hi, lo, y T) (T, T)
	Len64(x side, a T) T
	TrailingZeros64(x side, a T) T
	// spec level
	SpecSort() Sort
	ToSpec(a T, m MT) T
	SpecLit(v *big.Int) T
	SpecAdd(a, b T) T
	SpecSub(a, b T) T
	SpecMul(a, b T) T
	SpecCmp(op string, a, b T) T
}

// ---------------------------------------------------------------- INT theory

// IntTheory: machine integers as mathematical integers. It keeps a small table of
// statically known bit facts (value < 2^width, value divisible by 2^tz) so that
// shifts that cannot overflow and ORs of disjoint bit ranges are encoded exactly.
type IntTheory struct {
	bits map[string]bitsInfo
}

type bitsInfo struct{ tz, width int }

func (th IntTheory) info(t T, m MT) bitsInfo {
	if t.C != nil && t.C.Sign() >= 0 {
		if t.C.Sign() == 0 {
			return bitsInfo{tz: m.W, width: 0}
		}
		return bitsInfo{tz: int(t.C.TrailingZeroBits()), width: t.C.BitLen()}
	}
	if bi, ok := th.bits[t.S]; ok {
		return bi
	}
	return bitsInfo{tz: 0, width: m.W}
}

func (th IntTheory) note(t T, bi bitsInfo) {
	if th.bits != nil && t.C == nil {
		th.bits[t.S] = bi
	}
}

func (IntTheory) Mode() string         { return "int" }
func (IntTheory) Sort(m MT) Sort       { return sortInt }
func (IntTheory) SpecSort() Sort       { return sortInt }
func (IntTheory) SpecLit(v *big.Int) T { return intT(v) }
func (IntTheory) ToSpec(a T, m MT) T   { return a }
func (IntTheory) SpecAdd(a, b T) T     { return mkAdd(a, b) }
func (IntTheory) SpecSub(a, b T) T     { return mkSub(a, b) }
func (IntTheory) SpecMul(a, b T) T     { return mkMul(a, b) }
func (IntTheory) SpecCmp(op string, a, b T) T {
	return mkCmp(op, a, b)
}

func (IntTheory) Lit(v *big.Int, m MT) T { return intT(m.Wrap(v)) }

func (IntTheory) Range(t T, m MT) T {
	return mkAnd(mkCmp("<=", intT(m.Min()), t), mkCmp("<=", t, intT(m.Max())))
}

func inRange(t T, m MT) T {
	return mkAnd(mkCmp("<=", intT(m.Min()), t), mkCmp("<=", t, intT(m.Max())))
}

// wrapTo returns r with r ≡ e (mod 2^W), r in range of m.
func (th IntTheory) wrapTo(x side, hint string, e T, m MT, klo, khi *big.Int) T {
	if e.C != nil {
		return intT(m.Wrap(e.C))
	}
	vc := x.VC()
	r := vc.fresh(hint, sortInt)
	k := vc.fresh(hint+"_k", sortInt)
	vc.assume(mkEq(mkAdd(r, mkMul(intT(pow2(m.W)), k)), e))
	vc.assume(inRange(r, m))
	if klo != nil {
		vc.assume(mkCmp("<=", intT(klo), k))
	}
	if khi != nil {
		vc.assume(mkCmp("<=", k, intT(khi)))
	}
	return r
}

func (th IntTheory) Bin(x side, op token.Token, a, b T, m MT) T {
	vc := x.VC()
	switch op {
	case token.ADD, token.SUB, token.MUL:
		var e T
		switch op {
		case token.ADD:
			e = mkAdd(a, b)
		case token.SUB:
			e = mkSub(a, b)
		case token.MUL:
			e = mkMul(a, b)
		}
		if e.C != nil && !m.Signed {
			return intT(m.Wrap(e.C))
		}
		if m.Signed {
			if e.C != nil && e.C.Cmp(m.Min()) >= 0 && e.C.Cmp(m.Max()) <= 0 {
				return e
			}
			waived := x.sideOblige("overflow", inRange(e, m))
			if !waived {
				return vc.define("s", e)
			}
			return th.wrapTo(x, "sw", e, m, nil, nil)
		}
		var klo, khi *big.Int
		switch op {
		case token.ADD:
			klo, khi = big.NewInt(0), big.NewInt(1)
		case token.SUB:
			klo, khi = big.NewInt(-1), big.NewInt(0)
		case token.MUL:
			klo = big.NewInt(0)
			if a.C != nil {
				khi = new(big.Int).Set(a.C)
			} else if b.C != nil {
				khi = new(big.Int).Set(b.C)
			} else {
				khi = m.Max()
			}
		}
		return th.wrapTo(x, "u", e, m, klo, khi)
	case token.QUO, token.REM:
		if a.C != nil && b.C != nil && b.C.Sign() != 0 {
			q, r := new(big.Int).QuoRem(a.C, b.C, new(big.Int))
			if op == token.QUO {
				return intT(m.Wrap(q))
			}
			return intT(r)
		}
		if !(b.C != nil && b.C.Sign() != 0) {
			x.sideOblige("divzero", mkNot(mkEq(b, intT64(0))))
		}
		q := vc.fresh("q", sortInt)
		r := vc.fresh("r", sortInt)
		var body T
		if !m.Signed {
			body = mkAnd(mkEq(a, mkAdd(mkMul(q, b), r)), mkCmp("<=", intT64(0), r), mkCmp("<", r, b), mkCmp("<=", intT64(0), q), mkCmp("<=", q, a))
		} else {
			absb := mkIte(mkCmp("<", b, intT64(0)), mkNeg(b), b)
			body = mkAnd(mkEq(a, mkAdd(mkMul(q, b), r)),
				mkCmp("<", r, absb), mkCmp("<", mkNeg(absb), r),
				mkImp(mkCmp(">=", a, intT64(0)), mkCmp(">=", r, intT64(0))),
				mkImp(mkCmp("<=", a, intT64(0)), mkCmp("<=", r, intT64(0))))
		}
		vc.assume(mkImp(mkNot(mkEq(b, intT64(0))), body))
		if op == token.QUO {
			return q
		}
		return r
	case token.AND:
		if a.C != nil && b.C != nil {
			return intT(new(big.Int).And(a.C, b.C))
		}
		if a.C != nil && !m.Signed {
			a, b = b, a
		}
		if b.C != nil && !m.Signed {
			return th.andMask(x, a, b.C, m)
		}
		if m.Signed && (a.C != nil || b.C != nil) {
			// signed operand with a constant mask: work on the two's complement images
			if a.C != nil {
				a, b = b, a
			}
			um := MT{m.W, false}
			two := intT(pow2(m.W))
			ua := vc.define("tc", mkIte(mkCmp("<", a, intT64(0)), mkAdd(a, two), a))
			umask := new(big.Int).Mod(b.C, pow2(m.W))
			ru := th.andMask(x, ua, umask, um)
			if umask.Bit(m.W-1) == 0 {
				return ru
			}
			return vc.define("tcs", mkIte(mkCmp(">=", ru, intT(pow2(m.W-1))), mkSub(ru, two), ru))
		}
		r := vc.fresh("and", sortInt)
		if m.Signed {
			// only the non-negative case is characterised
			vc.assume(mkAnd(mkCmp("<=", intT(m.Min()), r), mkCmp("<=", r, intT(m.Max())),
				mkImp(mkAnd(mkCmp(">=", a, intT64(0)), mkCmp(">=", b, intT64(0))), mkAnd(mkCmp("<=", intT64(0), r), mkCmp("<=", r, a), mkCmp("<=", r, b)))))
			return r
		}
		vc.assume(mkAnd(mkCmp("<=", intT64(0), r), mkCmp("<=", r, a), mkCmp("<=", r, b)))
		return r
	case token.OR:
		if a.C != nil && b.C != nil {
			return intT(new(big.Int).Or(a.C, b.C))
		}
		if a.C != nil && a.C.Sign() == 0 {
			return b
		}
		if b.C != nil && b.C.Sign() == 0 {
			return a
		}
		if !m.Signed {
			ia, ib := th.info(a, m), th.info(b, m)
			if ia.width <= ib.tz || ib.width <= ia.tz {
				r := vc.define("ord", mkAdd(a, b))
				w := ia.width
				if ib.width > w {
					w = ib.width
				}
				tz := ia.tz
				if ib.tz < tz {
					tz = ib.tz
				}
				th.note(r, bitsInfo{tz: tz, width: w})
				return r
			}
		}
		r := vc.fresh("or", sortInt)
		if !m.Signed {
			vc.assume(mkAnd(mkCmp("<=", a, r), mkCmp("<=", b, r), mkCmp("<=", r, mkAdd(a, b)), mkCmp("<=", r, intT(m.Max()))))
			// when one operand is statically narrow (w bits) and the other happens to be a multiple of
			// 2^w, the bit ranges are disjoint and OR is addition
			narrow, wide := a, b
			in, iw := th.info(a, m), th.info(b, m)
			if iw.width < in.width {
				narrow, wide = b, a
				in = iw
			}
			if in.width <= 16 {
				q := vc.fresh("orq", sortInt)
				low := vc.fresh("orl", sortInt)
				p := intT(pow2(in.width))
				vc.assume(mkAnd(mkEq(wide, mkAdd(mkMul(p, q), low)), mkCmp("<=", intT64(0), low), mkCmp("<", low, p), mkCmp("<=", intT64(0), q)))
				vc.assume(mkImp(mkEq(low, intT64(0)), mkEq(r, mkAdd(wide, narrow))))
			}
		} else {
			vc.assume(inRange(r, m))
			vc.assume(mkEq(mkEq(r, intT64(0)), mkAnd(mkEq(a, intT64(0)), mkEq(b, intT64(0)))))
		}
		return r
	case token.XOR:
		if a.C != nil && b.C != nil && !m.Signed {
			return intT(new(big.Int).Xor(a.C, b.C))
		}
		r := vc.fresh("xor", sortInt)
		vc.assume(inRange(r, m))
		vc.assume(mkEq(mkEq(r, intT64(0)), mkEq(a, b)))
		if !m.Signed {
			vc.assume(mkCmp("<=", r, mkAdd(a, b)))
		}
		return r
	case token.AND_NOT:
		if a.C != nil && b.C != nil && !m.Signed {
			return intT(new(big.Int).AndNot(a.C, b.C))
		}
		if b.C != nil && !m.Signed {
			mask := new(big.Int).AndNot(m.Max(), b.C)
			return th.andMask(x, a, mask, m)
		}
		r := vc.fresh("andnot", sortInt)
		vc.assume(mkAnd(mkCmp("<=", intT64(0), r), mkCmp("<=", r, a)))
		return r
	}
	panic("IntTheory.Bin: unsupported op " + op.String())
}

// andMask computes a & mask exactly by splitting a at the boundaries of the
// runs of one-bits in mask.
func (th IntTheory) andMask(x side, a T, mask *big.Int, m MT) T {
	vc := x.VC()
	if mask.Sign() == 0 {
		return intT64(0)
	}
	if mask.Cmp(m.Max()) == 0 {
		return a
	}
	// boundaries
	type seg struct {
		lo, hi int
		in     bool
	}
	var segs []seg
	cur := mask.Bit(0) == 1
	start := 0
	for i := 1; i <= m.W; i++ {
		var bit bool
		if i < m.W {
			bit = mask.Bit(i) == 1
		}
		if i == m.W || bit != cur {
			segs = append(segs, seg{start, i, cur})
			start = i
			cur = bit
		}
	}
	sum := intT64(0)
	res := intT64(0)
	for _, s := range segs {
		f := vc.fresh("fld", sortInt)
		vc.assume(mkAnd(mkCmp("<=", intT64(0), f), mkCmp("<", f, intT(pow2(s.hi-s.lo)))))
		term := mkMul(intT(pow2(s.lo)), f)
		sum = mkAdd(sum, term)
		if s.in {
			res = mkAdd(res, term)
		}
	}
	// (sum first: a line of the form (= |sym| ...) would be taken for the definition of |sym| by the slicer)
	vc.assume(mkEq(sum, a))
	r := vc.define("masked", res)
	// the masked value has no bits outside the mask
	th.note(r, bitsInfo{tz: int(mask.TrailingZeroBits()), width: mask.BitLen()})
	return r
}

func (th IntTheory) Shift(x side, op token.Token, a T, m MT, cnt T, cm MT) T {
	vc := x.VC()
	if cm.Signed && cnt.C == nil {
		x.sideOblige("shiftneg", mkCmp(">=", cnt, intT64(0)))
	}
	if cnt.C != nil {
		c := int(cnt.C.Int64())
		if cnt.C.Sign() < 0 {
			x.sideOblige("shiftneg", tFalse)
			return vc.fresh("badshift", sortInt)
		}
		if cnt.C.Cmp(big.NewInt(int64(m.W))) >= 0 {
			if op == token.SHR && m.Signed {
				return mkIte(mkCmp("<", a, intT64(0)), intT64(-1), intT64(0))
			}
			return intT64(0)
		}
		if c == 0 {
			return a
		}
		if op == token.SHL {
			e := mkMul(a, intT(pow2(c)))
			if !m.Signed {
				if ia := th.info(a, m); ia.width+c <= m.W {
					r := vc.define("shlx", e)
					th.note(r, bitsInfo{tz: ia.tz + c, width: ia.width + c})
					return r
				}
			}
			if m.Signed {
				return th.wrapTo(x, "shl", e, m, nil, nil)
			}
			return th.wrapTo(x, "shl", e, m, big.NewInt(0), new(big.Int).Sub(pow2(c), big.NewInt(1)))
		}
		// SHR: floor division by 2^c
		if a.C != nil {
			return intT(new(big.Int).Rsh(a.C, uint(c)))
		}
		q := vc.fresh("shr", sortInt)
		r := vc.fresh("shr_r", sortInt)
		vc.assume(mkAnd(mkEq(a, mkAdd(mkMul(intT(pow2(c)), q), r)), mkCmp("<=", intT64(0), r), mkCmp("<", r, intT(pow2(c)))))
		if !m.Signed {
			vc.assume(mkCmp("<=", intT64(0), q))
		}
		return q
	}
	// symbolic count: p = pow2(cnt) (prelude function, exact for 0..64, = 2^64 beyond... so shifts >= W give 0 for W<=64)
	p := vc.define("p2", T{S: "(pow2 " + cnt.S + ")", Sort: sortInt})
	if op == token.SHL {
		e := mkMul(a, p)
		r := th.wrapTo(x, "shlv", e, m, big.NewInt(0), nil)
		return mkIte(mkCmp(">=", cnt, intT64(int64(m.W))), intT64(0), r)
	}
	q := vc.fresh("shrv", sortInt)
	r := vc.fresh("shrv_r", sortInt)
	vc.assume(mkAnd(mkEq(a, mkAdd(mkMul(p, q), r)), mkCmp("<=", intT64(0), r), mkCmp("<", r, p)))
	if !m.Signed {
		vc.assume(mkAnd(mkCmp("<=", intT64(0), q), mkCmp("<=", q, a)))
		return mkIte(mkCmp(">=", cnt, intT64(int64(m.W))), intT64(0), q)
	}
	return q
}

func (IntTheory) Cmp(op token.Token, a, b T, m MT) T {
	switch op {
	case token.EQL:
		return mkEq(a, b)
	case token.NEQ:
		return mkNot(mkEq(a, b))
	case token.LSS:
		return mkCmp("<", a, b)
	case token.LEQ:
		return mkCmp("<=", a, b)
	case token.GTR:
		return mkCmp(">", a, b)
	case token.GEQ:
		return mkCmp(">=", a, b)
	}
	panic("cmp " + op.String())
}

func (IntTheory) Not(x side, a T, m MT) T {
	if m.Signed {
		return mkSub(intT64(-1), a)
	}
	return mkSub(intT(m.Max()), a)
}

func (th IntTheory) Neg(x side, a T, m MT) T {
	return th.Bin(x, token.SUB, intT64(0), a, m)
}

func (th IntTheory) Conv(x side, a T, from, to MT) T {
	if a.C != nil {
		return intT(to.Wrap(a.C))
	}
	// value-preserving?
	if from.Min().Cmp(to.Min()) >= 0 && from.Max().Cmp(to.Max()) <= 0 {
		if !from.Signed && from.W < to.W {
			if _, known := th.bits[a.S]; !known {
				th.note(a, bitsInfo{tz: 0, width: from.W})
			}
		}
		return a
	}
	if to.Signed && to.W < from.W {
		waived := x.sideOblige("convrange", inRange(a, to))
		if !waived {
			return a
		}
	}
	var klo, khi *big.Int
	if !from.Signed {
		klo = big.NewInt(0)
	}
	if from.W == to.W {
		klo, khi = big.NewInt(-1), big.NewInt(1)
	}
	return th.wrapTo(x, "cv", a, to, klo, khi)
}

var w64 = pow2(64)
var u64 = MT{64, false}

func (th IntTheory) Add64(x side, a, b, c T) (T, T) {
	vc := x.VC()
	if !(c.C != nil && c.C.Cmp(big.NewInt(1)) <= 0) {
		x.sideOblige("intrinsic", mkCmp("<=", c, intT64(1)))
	}
	e := mkAdd(mkAdd(a, b), c)
	if e.C != nil {
		q, r := new(big.Int).QuoRem(e.C, w64, new(big.Int))
		return intT(r), intT(q)
	}
	r := vc.fresh("sum", sortInt)
	k := vc.fresh("carry", sortInt)
	vc.assume(mkAnd(mkEq(mkAdd(r, mkMul(intT(w64), k)), e), inRange(r, u64), mkCmp("<=", intT64(0), k), mkCmp("<=", k, intT64(1))))
	return r, k
}

func (th IntTheory) Sub64(x side, a, b, c T) (T, T) {
	vc := x.VC()
	if !(c.C != nil && c.C.Cmp(big.NewInt(1)) <= 0) {
		x.sideOblige("intrinsic", mkCmp("<=", c, intT64(1)))
	}
	e := mkSub(mkSub(a, b), c)
	if e.C != nil {
		if e.C.Sign() >= 0 {
			return intT(e.C), intT64(0)
		}
		return intT(new(big.Int).Add(e.C, w64)), intT64(1)
	}
	r := vc.fresh("diff", sortInt)
	k := vc.fresh("borrow", sortInt)
	vc.assume(mkAnd(mkEq(mkSub(r, mkMul(intT(w64), k)), e), inRange(r, u64), mkCmp("<=", intT64(0), k), mkCmp("<=", k, intT64(1))))
	return r, k
}

func (th IntTheory) Mul64(x side, a, b T) (T, T) {
	vc := x.VC()
	e := mkMul(a, b)
	if e.C != nil {
		q, r := new(big.Int).QuoRem(e.C, w64, new(big.Int))
		return intT(q), intT(r)
	}
	hi := vc.fresh("mulhi", sortInt)
	lo := vc.fresh("mullo", sortInt)
	vc.assume(mkAnd(mkEq(mkAdd(lo, mkMul(intT(w64), hi)), e), inRange(lo, u64), inRange(hi, u64)))
	if a.C != nil {
		vc.assume(mkCmp("<", hi, a))
	} else if b.C != nil {
		vc.assume(mkCmp("<", hi, b))
	}
	return hi, lo
}

func (th IntTheory) Div64(x side, hi, lo, y T) (T, T) {
	vc := x.VC()
	x.sideOblige("div64", mkAnd(mkNot(mkEq(y, intT64(0))), mkCmp("<", hi, y)))
	q := vc.fresh("dq", sortInt)
	r := vc.fresh("dr", sortInt)
	n := mkAdd(mkMul(intT(w64), hi), lo)
	vc.assume(mkImp(mkCmp("<", hi, y), mkAnd(mkEq(n, mkAdd(mkMul(q, y), r)), mkCmp("<=", intT64(0), r), mkCmp("<", r, y), inRange(q, u64))))
	return q, r
}

func (th IntTheory) Len64(x side, a T) T {
	vc := x.VC()
	if a.C != nil {
		return intT64(int64(a.C.BitLen()))
	}
	n := vc.fresh("len", sortInt)
	vc.assume(mkAnd(mkCmp("<=", intT64(0), n), mkCmp("<=", n, intT64(64))))
	vc.assume(mkEq(mkEq(a, intT64(0)), mkEq(n, intT64(0))))
	vc.assume(mkImp(mkCmp(">", a, intT64(0)), T{S: fmt.Sprintf("(and (<= (pow2 (- %s 1)) %s) (< %s (pow2 %s)))", n.S, a.S, a.S, n.S), Sort: sortBool}))
	return n
}

func (th IntTheory) TrailingZeros64(x side, a T) T {
	vc := x.VC()
	n := vc.fresh("tz", sortInt)
	m := vc.fresh("tzm", sortInt)
	vc.assume(mkAnd(mkCmp("<=", intT64(0), n), mkCmp("<=", n, intT64(64))))
	vc.assume(mkEq(mkEq(a, intT64(0)), mkEq(n, intT64(64))))
	vc.assume(mkImp(mkCmp(">", a, intT64(0)), T{S: fmt.Sprintf("(and (>= %s 0) (= %s (* (pow2 %s) (+ (* 2 %s) 1))))", m.S, a.S, n.S, m.S), Sort: sortBool}))
	return n
}

// ---------------------------------------------------------------- BV theory

type BVTheory struct{}

const specW = 256

func (BVTheory) Mode() string   { return "bv" }
func (BVTheory) Sort(m MT) Sort { return sortBV(m.W) }
func (BVTheory) SpecSort() Sort { return sortBV(specW) }
func (BVTheory) SpecLit(v *big.Int) T {
	return bvT(v, specW)
}
func (BVTheory) Lit(v *big.Int, m MT) T { return bvT(v, m.W) }
func (BVTheory) Range(t T, m MT) T      { return tTrue }

func bvConstVal(t T, m MT) *big.Int {
	if t.C == nil {
		return nil
	}
	if m.Signed {
		return m.Wrap(t.C)
	}
	return t.C
}

func (BVTheory) ToSpec(a T, m MT) T {
	if a.Sort.K != SBV {
		return a
	}
	if a.Sort.W == specW {
		return a
	}
	if a.C != nil {
		return bvT(bvConstVal(a, m), specW)
	}
	if m.Signed {
		return T{S: fmt.Sprintf("((_ sign_extend %d) %s)", specW-a.Sort.W, a.S), Sort: sortBV(specW)}
	}
	return T{S: fmt.Sprintf("((_ zero_extend %d) %s)", specW-a.Sort.W, a.S), Sort: sortBV(specW)}
}
func (BVTheory) SpecAdd(a, b T) T { return T{S: app("bvadd", a, b), Sort: sortBV(specW)} }
func (BVTheory) SpecSub(a, b T) T { return T{S: app("bvsub", a, b), Sort: sortBV(specW)} }
func (BVTheory) SpecMul(a, b T) T { return T{S: app("bvmul", a, b), Sort: sortBV(specW)} }
func (BVTheory) SpecCmp(op string, a, b T) T {
	m := map[string]string{"<": "bvslt", "<=": "bvsle", ">": "bvsgt", ">=": "bvsge"}
	return T{S: app(m[op], a, b), Sort: sortBool}
}

func (th BVTheory) Bin(x side, op token.Token, a, b T, m MT) T {
	var o string
	switch op {
	case token.ADD:
		o = "bvadd"
	case token.SUB:
		o = "bvsub"
	case token.MUL:
		o = "bvmul"
	case token.QUO:
		if !(b.C != nil && b.C.Sign() != 0) {
			x.sideOblige("divzero", mkNot(mkEq(b, bvT(big.NewInt(0), m.W))))
		}
		o = "bvudiv"
		if m.Signed {
			o = "bvsdiv"
		}
	case token.REM:
		if !(b.C != nil && b.C.Sign() != 0) {
			x.sideOblige("divzero", mkNot(mkEq(b, bvT(big.NewInt(0), m.W))))
		}
		o = "bvurem"
		if m.Signed {
			o = "bvsrem"
		}
	case token.AND:
		o = "bvand"
	case token.OR:
		o = "bvor"
	case token.XOR:
		o = "bvxor"
	case token.AND_NOT:
		return T{S: fmt.Sprintf("(bvand %s (bvnot %s))", a.S, b.S), Sort: a.Sort}
	default:
		panic("BVTheory.Bin " + op.String())
	}
	return T{S: app(o, a, b), Sort: a.Sort}
}

func (th BVTheory) resize(a T, from MT, w int) T {
	if from.W == w {
		return a
	}
	if a.C != nil {
		return bvT(bvConstVal(a, from), w)
	}
	if w < from.W {
		return T{S: fmt.Sprintf("((_ extract %d 0) %s)", w-1, a.S), Sort: sortBV(w)}
	}
	if from.Signed {
		return T{S: fmt.Sprintf("((_ sign_extend %d) %s)", w-from.W, a.S), Sort: sortBV(w)}
	}
	return T{S: fmt.Sprintf("((_ zero_extend %d) %s)", w-from.W, a.S), Sort: sortBV(w)}
}

func (th BVTheory) Shift(x side, op token.Token, a T, m MT, cnt T, cm MT) T {
	if cm.Signed {
		x.sideOblige("shiftneg", T{S: fmt.Sprintf("(bvsge %s %s)", cnt.S, bvT(big.NewInt(0), cm.W).S), Sort: sortBool})
	}
	// bring count to width of a; saturate if count is wider
	var c T
	if cm.W > m.W {
		big_ := T{S: fmt.Sprintf("(bvuge %s %s)", cnt.S, bvT(big.NewInt(int64(m.W)), cm.W).S), Sort: sortBool}
		c = mkIte(big_, bvT(big.NewInt(int64(m.W)), m.W), th.resize(cnt, MT{cm.W, false}, m.W))
	} else {
		c = th.resize(cnt, MT{cm.W, false}, m.W)
	}
	o := "bvshl"
	if op == token.SHR {
		o = "bvlshr"
		if m.Signed {
			o = "bvashr"
		}
	}
	return T{S: app(o, a, c), Sort: a.Sort}
}

func (BVTheory) Cmp(op token.Token, a, b T, m MT) T {
	var o string
	switch op {
	case token.EQL:
		return mkEq(a, b)
	case token.NEQ:
		return mkNot(mkEq(a, b))
	case token.LSS:
		o = "bvult"
		if m.Signed {
			o = "bvslt"
		}
	case token.LEQ:
		o = "bvule"
		if m.Signed {
			o = "bvsle"
		}
	case token.GTR:
		o = "bvugt"
		if m.Signed {
			o = "bvsgt"
		}
	case token.GEQ:
		o = "bvuge"
		if m.Signed {
			o = "bvsge"
		}
	}
	return T{S: app(o, a, b), Sort: sortBool}
}

func (BVTheory) Not(x side, a T, m MT) T { return T{S: "(bvnot " + a.S + ")", Sort: a.Sort} }
func (BVTheory) Neg(x side, a T, m MT) T { return T{S: "(bvneg " + a.S + ")", Sort: a.Sort} }
func (th BVTheory) Conv(x side, a T, from, to MT) T {
	return th.resize(a, from, to.W)
}

func (th BVTheory) Add64(x side, a, b, c T) (T, T) {
	vc := x.VC()
	s := vc.define("sum65", T{S: fmt.Sprintf("(bvadd ((_ zero_extend 1) %s) ((_ zero_extend 1) %s) ((_ zero_extend 1) %s))", a.S, b.S, c.S), Sort: sortBV(65)})
	return T{S: fmt.Sprintf("((_ extract 63 0) %s)", s.S), Sort: sortBV(64)}, T{S: fmt.Sprintf("((_ zero_extend 63) ((_ extract 64 64) %s))", s.S), Sort: sortBV(64)}
}
func (th BVTheory) Sub64(x side, a, b, c T) (T, T) {
	vc := x.VC()
	s := vc.define("diff65", T{S: fmt.Sprintf("(bvsub (bvsub ((_ zero_extend 1) %s) ((_ zero_extend 1) %s)) ((_ zero_extend 1) %s))", a.S, b.S, c.S), Sort: sortBV(65)})
	return T{S: fmt.Sprintf("((_ extract 63 0) %s)", s.S), Sort: sortBV(64)}, T{S: fmt.Sprintf("((_ zero_extend 63) ((_ extract 64 64) %s))", s.S), Sort: sortBV(64)}
}
func (th BVTheory) Mul64(x side, a, b T) (T, T) {
	vc := x.VC()
	p := vc.define("prod128", T{S: fmt.Sprintf("(bvmul ((_ zero_extend 64) %s) ((_ zero_extend 64) %s))", a.S, b.S), Sort: sortBV(128)})
	return T{S: fmt.Sprintf("((_ extract 127 64) %s)", p.S), Sort: sortBV(64)}, T{S: fmt.Sprintf("((_ extract 63 0) %s)", p.S), Sort: sortBV(64)}
}
func (th BVTheory) Div64(x side, hi, lo, y T) (T, T) {
	vc := x.VC()
	x.sideOblige("div64", T{S: fmt.Sprintf("(bvult %s %s)", hi.S, y.S), Sort: sortBool})
	n := fmt.Sprintf("(concat %s %s)", hi.S, lo.S)
	yy := fmt.Sprintf("((_ zero_extend 64) %s)", y.S)
	q := vc.define("dq", T{S: fmt.Sprintf("((_ extract 63 0) (bvudiv %s %s))", n, yy), Sort: sortBV(64)})
	r := vc.define("dr", T{S: fmt.Sprintf("((_ extract 63 0) (bvurem %s %s))", n, yy), Sort: sortBV(64)})
	return q, r
}
func (th BVTheory) Len64(x side, a T) T {
	// nested ite over the 64 bit positions
	s := "(_ bv0 64)"
	for i := 0; i < 64; i++ {
		s = fmt.Sprintf("(ite (= ((_ extract %d %d) %s) #b1) (_ bv%d 64) %s)", i, i, a.S, i+1, s)
	}
	return x.VC().define("len", T{S: s, Sort: sortBV(64)})
}
func (th BVTheory) TrailingZeros64(x side, a T) T {
	s := "(_ bv64 64)"
	for i := 63; i >= 0; i-- {
		s = fmt.Sprintf("(ite (= ((_ extract %d %d) %s) #b1) (_ bv%d 64) %s)", i, i, a.S, i, s)
	}
	return x.VC().define("tz", T{S: s, Sort: sortBV(64)})
}
