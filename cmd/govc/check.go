package main

func checkMain(repo, verif string, args []string) int { return 2 }
