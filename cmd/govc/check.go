package main

import (
	"encoding/json"
	"flag"
	"fmt"
	"os"
	"path/filepath"
	"regexp"
	"sort"
	"strconv"
	"strings"
	"time"

	"golang.org/x/tools/go/ssa"
)

// calleesWithContracts returns the contracted functions statically called from fn.
func (w *World) calleesWithContracts(name string) []string {
	fn := w.funcs[name]
	if fn == nil {
		return nil
	}
	seen := map[string]bool{}
	for _, b := range fn.Blocks {
		for _, ins := range b.Instrs {
			if c, ok := ins.(*ssa.Call); ok {
				if f := c.Call.StaticCallee(); f != nil {
					k := funcKey(f)
					if _, has := w.contracts.Funcs[k]; has && w.funcs[k] != nil {
						seen[k] = true
					}
				}
			}
		}
	}
	var out []string
	for k := range seen {
		out = append(out, k)
	}
	sort.Strings(out)
	return out
}

// cone returns the functions whose obligations decide property prop: those
// tagged with it and, transitively, every contracted function they call.
func (w *World) cone(prop string) []string {
	in := map[string]bool{}
	var work []string
	for _, k := range w.contracts.Order {
		c := w.contracts.Funcs[k]
		for _, p := range c.Props {
			if p == prop {
				if !in[k] {
					in[k] = true
					work = append(work, k)
				}
			}
		}
	}
	for len(work) > 0 {
		k := work[len(work)-1]
		work = work[:len(work)-1]
		for _, c := range w.calleesWithContracts(k) {
			if !in[c] {
				in[c] = true
				work = append(work, c)
			}
		}
	}
	var out []string
	for k := range in {
		out = append(out, k)
	}
	sort.Strings(out)
	return out
}

type KnownFinding struct {
	Property    string   `json:"property"`
	Status      string   `json:"status"` // open | fixed
	Commit      string   `json:"commit,omitempty"`
	Obligations []string `json:"obligations,omitempty"` // obligation id prefixes this finding accounts for
	What        string   `json:"what"`
	Witness     string   `json:"witness,omitempty"`
}

type Evidence struct {
	PropertyID  string                 `json:"property_id"`
	Tier        string                 `json:"tier"`
	Seed        int                    `json:"seed"`
	Level       string                 `json:"level"`
	Coverage    map[string]interface{} `json:"coverage"`
	Assumptions []string               `json:"assumptions"`
	WallS       float64                `json:"wall_s"`
	Violations  int                    `json:"violations"`
}

type PropMeta struct {
	Level       string   `json:"level"`
	Undecided   []string `json:"undecided_clauses"`
	Assumptions []string `json:"assumptions"`
	Bounded     []string `json:"bounded_standins"`
}

func readJSON(path string, v interface{}) error {
	data, err := os.ReadFile(path)
	if err != nil {
		return err
	}
	return json.Unmarshal(data, v)
}

func checkMain(repo, verif string, args []string) int {
	fs := flag.NewFlagSet("check", flag.ExitOnError)
	prop := fs.String("prop", "", "property id")
	thorough := fs.Bool("thorough", false, "thorough tier")
	timeout := fs.Int("t", 0, "solver timeout (s)")
	updateBaseline := fs.Bool("update-baseline", false, "rewrite baseline/<prop>.txt from this run")
	fs.Parse(args)
	if *prop == "" {
		fmt.Fprintln(os.Stderr, "check: -prop required")
		return 2
	}
	t0 := time.Now()
	tier := "quick"
	if *thorough || os.Getenv("VERIF_TIER") == "thorough" {
		tier = "thorough"
	}
	seed, _ := strconv.Atoi(os.Getenv("VERIF_SEED"))
	evPath := filepath.Join(verif, "evidence", *prop+".json")
	if st := os.Getenv("VERIF_SELFTEST"); st != "" {
		// the must-fail self-test runs the checks on deliberately broken copies of the repository: its
		// evidence and replay files must not replace the ones of the real tree
		evPath = filepath.Join(verif, "work", "selftest", st, *prop+".json")
	}
	os.MkdirAll(filepath.Dir(evPath), 0o755)
	os.Remove(evPath)

	var metas map[string]PropMeta
	if err := readJSON(filepath.Join(verif, "props_meta.json"), &metas); err != nil {
		fmt.Fprintln(os.Stderr, "props_meta.json:", err)
		return 2
	}
	meta := metas[*prop]
	if meta.Level == "" {
		meta.Level = "proof"
	}

	violations := 0
	var violationLines []string
	replayDir := filepath.Join(verif, "replays", *prop)
	if st := os.Getenv("VERIF_SELFTEST"); st != "" {
		replayDir = filepath.Join(verif, "work", "selftest", st, "replays", *prop)
	}
	os.RemoveAll(replayDir)
	os.MkdirAll(replayDir, 0o755)
	reportViolation := func(obl string, detail map[string]interface{}, confirmed bool) {
		violations++
		name := identSan.ReplaceAllString(obl, "_")
		if len(name) > 150 {
			name = name[:150]
		}
		path := filepath.Join(replayDir, name+".json")
		detail["property"] = *prop
		detail["obligation"] = obl
		detail["confirmed_on_real_code"] = confirmed
		data, _ := json.MarshalIndent(detail, "", " ")
		os.WriteFile(path, data, 0o644)
		line := fmt.Sprintf("VIOLATION property=%s replay=%s obligation=%s", *prop, path, obl)
		if !confirmed {
			line += " no-failing-input-found"
		}
		violationLines = append(violationLines, line)
	}

	w, err := loadWorld(repo, verif)
	if err != nil {
		// the tree does not load with the contracts: every obligation is undecided
		fmt.Println("load error:", err)
		reportViolation("load", map[string]interface{}{"error": err.Error()}, false)
		for _, l := range violationLines {
			fmt.Println(l)
		}
		writeEvidence(evPath, &Evidence{PropertyID: *prop, Tier: tier, Seed: seed, Level: meta.Level, WallS: time.Since(t0).Seconds(), Violations: violations,
			Coverage: map[string]interface{}{"obligations": 0, "discharged": 0, "checker_cmd": "govc check", "trusted_base": []string{}, "explanation": "repository failed to load: " + err.Error(), "evaluations": 1, "distinct_nontrivial": 2}})
		return 1
	}
	names := w.cone(*prop)
	reps := genAll(w, names)
	lemObls, lemErr := genLemmas(w, func(l *Lemma) bool {
		if l.Export || w.lemmaUses[l.Name] {
			return true
		}
		for _, p := range l.Props {
			if p == *prop {
				return true
			}
		}
		return false
	})
	var obls []*Obligation
	var genErrors []string
	var warnings []string
	var trustedFns []string
	for _, r := range reps {
		if r.Err != nil {
			genErrors = append(genErrors, r.Err.Error())
			continue
		}
		if r.Trusted != "" {
			trustedFns = append(trustedFns, r.Name+": "+r.Trusted)
		}
		obls = append(obls, r.Obls...)
		for _, wn := range r.Warnings {
			warnings = append(warnings, r.Name+": "+wn)
		}
	}
	if lemErr != nil {
		genErrors = append(genErrors, lemErr.Error())
	}
	obls = append(obls, lemObls...)

	to := 60
	if tier == "thorough" {
		to = 120
	}
	if *timeout > 0 {
		to = *timeout
	}
	opts := SolveOpts{WorkDir: filepath.Join(verif, "work"), TimeoutS: to, UseCache: tier == "quick" && os.Getenv("VERIF_NOCACHE") == "", TwoSolver: tier == "thorough"}
	solveAll(obls, w.prelude, opts, nil)

	// ---- tally
	bySolver := map[string]int{}
	byKind := map[string]int{}
	solverTime := 0.0
	cacheHits := 0
	nProbe, nProbeOK := 0, 0
	nObl, nDis := 0, 0
	var failed []*Obligation
	ids := map[string]bool{}
	for _, o := range obls {
		ids[normID(o.ID)] = true
		if o.Result != nil {
			solverTime += o.Result.Seconds
			if o.Result.CacheHit {
				cacheHits++
			}
		}
		if o.MustFail {
			nProbe++
			if o.Discharged() {
				nProbeOK++
			} else {
				failed = append(failed, o)
			}
			continue
		}
		nObl++
		byKind[o.Kind]++
		if o.Discharged() {
			nDis++
			bySolver[o.Result.Solver]++
		} else {
			failed = append(failed, o)
		}
	}

	// ---- C20: whole-package frame analysis and coverage list
	var frameFindings []FrameFinding
	var notUnderContract []string
	frameFuncs := 0
	if *prop == "C20" {
		ff, n, ferr := frameCheck(w)
		if ferr != nil {
			genErrors = append(genErrors, "frame analysis: "+ferr.Error())
		}
		frameFindings, frameFuncs = ff, n
		for _, n := range w.funcNames() {
			if w.contracts.Funcs[n] == nil {
				notUnderContract = append(notUnderContract, n)
			}
		}
	}
	if *prop == "C18" {
		// "Pow equals PowWithMode under DefaultRoundingMode": the pass-through obligations of Pow need the
		// mode-independence part of the frame analysis (no *WithMode method reads DefaultRoundingMode)
		ff, _, ferr := frameCheck(w)
		if ferr != nil {
			genErrors = append(genErrors, "frame analysis: "+ferr.Error())
		}
		for _, f := range ff {
			if strings.Contains(f.What, "reads DefaultRoundingMode") {
				frameFindings = append(frameFindings, f)
			}
		}
		nObl++
		if len(frameFindings) == 0 {
			nDis++
		}
		byKind["mode-independence"]++
		bySolver["syntactic"]++
	}
	if *prop == "C20" {
		bad := map[string]bool{}
		for _, f := range frameFindings {
			bad[f.Func] = true
		}
		nObl += frameFuncs
		nDis += frameFuncs - len(bad)
		byKind["frame"] += frameFuncs
		bySolver["syntactic frame analysis (go/ssa)"] += frameFuncs - len(bad)
	}
	var noVariant []string
	for _, wn := range warnings {
		if strings.Contains(wn, "no variant") {
			noVariant = append(noVariant, wn)
		}
	}
	allDead, deadReturns := deadFunctions(obls)
	failed = append(failed, allDead...)
	// ---- baseline: every obligation discharged on the reference tree must still be generated
	basePath := filepath.Join(verif, "baseline", *prop+".txt")
	var missing []string
	if *updateBaseline {
		var lines []string
		for id := range ids {
			lines = append(lines, id)
		}
		sort.Strings(lines)
		os.MkdirAll(filepath.Dir(basePath), 0o755)
		os.WriteFile(basePath, []byte(strings.Join(lines, "\n")+"\n"), 0o644)
	} else if data, err := os.ReadFile(basePath); err == nil {
		for _, id := range strings.Split(strings.TrimSpace(string(data)), "\n") {
			if id != "" && !ids[id] {
				missing = append(missing, id)
			}
		}
	} else {
		genErrors = append(genErrors, "baseline file missing: "+basePath)
	}

	// ---- known findings
	var known []KnownFinding
	readJSON(filepath.Join(verif, "known_findings.json"), &known)
	knownPrinted := []string{}
	isKnown := func(id string) *KnownFinding {
		for i := range known {
			k := &known[i]
			if k.Status != "open" {
				continue
			}
			for _, p := range k.Obligations {
				if strings.HasPrefix(id, p) {
					return k
				}
			}
		}
		return nil
	}
	printed := map[string]bool{}
	var excluded []string

	for _, o := range failed {
		if k := isKnown(o.ID); k != nil {
			nObl-- // accounted for by a recorded finding, not part of the proof claim
			excluded = append(excluded, o.ID)
			if !printed[k.What] {
				printed[k.What] = true
				line := fmt.Sprintf("KNOWN-FINDING: property=%s %s", k.Property, k.What)
				if k.Property != *prop {
					line += " (obligation shared with the cone of " + *prop + ")"
				}
				fmt.Println(line)
				knownPrinted = append(knownPrinted, line)
			}
			continue
		}
		detail := map[string]interface{}{
			"kind": o.Kind, "clause": o.Note, "position": o.Pos, "smt_file": o.Result.File,
			"solver_status": o.Result.Status, "solver": o.Result.Solver, "tried": o.Result.Tried,
			"model": o.Result.Model, "solver_output": o.Result.Output,
		}
		if o.Kind == "cover-return" {
			detail["explanation"] = "no return statement of the function is reachable under its contract: the preconditions, invariants or callee contracts are contradictory"
		} else if o.MustFail {
			detail["explanation"] = "vacuity/cover probe refuted: the assumptions in force at this point are contradictory (a contract or invariant excludes every execution)"
		} else if o.Result.Status == "sat" {
			detail["explanation"] = "the solver found values for which the obligation does not hold (model attached; values are those of the function's inputs, logical variables and DefaultRoundingMode)"
		} else {
			detail["explanation"] = "the obligation was discharged on the reference tree and is not discharged now (" + o.Result.Status + ")"
		}
		confirmed := tryReplay(w, *prop, o, detail)
		if !confirmed {
			confirmed = replaySweep(w, o, obls, detail)
		}
		reportViolation(o.ID, detail, confirmed)
	}
	for _, f := range frameFindings {
		reportViolation("frame/"+f.Func+"@"+f.Pos, map[string]interface{}{"kind": "frame", "explanation": "the function writes to memory visible outside the call: " + f.What, "position": f.Pos, "function": f.Func}, false)
	}
	for _, id := range missing {
		reportViolation(id, map[string]interface{}{"explanation": "obligation present in the baseline is no longer generated (function or anchor removed, or the function left the supported subset)", "errors": genErrors}, false)
	}
	if len(missing) == 0 {
		for _, e := range genErrors {
			reportViolation("generator/"+firstWordOf(e), map[string]interface{}{"explanation": "verification conditions could not be generated", "error": e}, false)
		}
	}

	// ---- samples
	var samples []interface{}
	for i, o := range obls {
		if o.MustFail {
			continue
		}
		if len(samples) < 6 && (i%(len(obls)/6+1) == 0 || len(samples) == 0) {
			samples = append(samples, map[string]interface{}{"id": o.ID, "kind": o.Kind, "clause": o.Note, "at": o.Pos, "status": o.Result.Status, "solver": o.Result.Solver, "seconds": o.Result.Seconds})
		}
	}
	var fnList []string
	for _, r := range reps {
		if r.Err == nil && r.Trusted == "" {
			fnList = append(fnList, r.Name)
		}
	}
	var exts []string
	for e := range w.externals {
		exts = append(exts, e)
	}
	sort.Strings(exts)
	assumptions := append([]string{}, meta.Assumptions...)
	assumptions = append(assumptions,
		"trusted base: the generator govc (go/ssa NaiveForm -> VC), contract parser, SMT preludes; z3 5.1.0 / cvc5 1.0 / z3 4.8.12 soundness",
		rsAxiomLine(),
		"callee termination assumed at call sites (proved per function via decreases where a variant is given)",
	)
	for _, t := range trustedFns {
		assumptions = append(assumptions, "assumed contract (not verified): "+t)
	}
	var tks []string
	for k := range w.trusted {
		tks = append(tks, k)
	}
	sort.Strings(tks)
	for _, k := range tks {
		assumptions = append(assumptions, "trusted (assumed, not verified): "+k+" - "+w.trusted[k])
	}
	assumptions = append(assumptions,
		"frame at calls: a callee is taken to write only through the parameters listed for it in frameAllowed (cmd/govc/frame.go); the frame analysis run by the C20 check verifies that table for every function of the package",
		"append: the result is modelled as its own backing store agreeing with the destination on the destination's elements (in-place case: the destination's store gets the same contents); stores made later through the result are not propagated to the original array")
	for _, e := range exts {
		assumptions = append(assumptions, "external function havocked (no contract assumed): "+e)
	}
	for _, wn := range dedup(warnings) {
		if strings.Contains(wn, "no contract") || strings.Contains(wn, "havocked") || strings.Contains(wn, "unbound") {
			assumptions = append(assumptions, "abstraction: "+wn)
		}
	}
	cov := map[string]interface{}{
		"obligations": nObl, "discharged": nDis,
		"checker_cmd":              fmt.Sprintf("bin/govc check -prop %s (tier %s, timeout %ds per obligation)", *prop, tier, to),
		"trusted_base":             []string{"govc VC generator", "z3-new 5.1.0", "cvc5 1.0", "z3 4.8.12", "go/ssa (x/tools v0.29.0)"},
		"functions_under_contract": fnList,
		"obligations_by_kind":      byKind,
		"discharged_by_solver":     bySolver,
		"solver_time_s":            solverTime,
		"cache_hits":               cacheHits,
		"vacuity_probes":           nProbe,
		"vacuity_probes_ok":        nProbeOK,
		"undecided_clauses":        meta.Undecided,
		"bounded_standins":         meta.Bounded,
		"known_findings_printed":   knownPrinted,
		"excluded_by_known_findings": excluded,
		"baseline_missing":         missing,
		"unreachable_returns":      deadReturns,
		"frame_functions_checked":  frameFuncs,
		"frame_findings":           len(frameFindings),
		"functions_without_contract": notUnderContract,
		"termination_not_proved":   dedup(noVariant),
		"samples":                  samples,
		"explanation":              "contract-based deductive verification: weakest-precondition style VCs generated from go/ssa of the current working tree, discharged by SMT solvers; see DESIGN.md",
		"evaluations":              nObl + nProbe,
		"distinct_nontrivial":      nDis,
		"rule":                     "one evaluation per generated obligation; non-trivial = discharged obligation that is not a vacuity/cover probe",
	}
	ev := &Evidence{PropertyID: *prop, Tier: tier, Seed: seed, Level: meta.Level, Coverage: cov, Assumptions: assumptions, WallS: time.Since(t0).Seconds(), Violations: violations}
	writeEvidence(evPath, ev)

	fmt.Printf("property %s: %d functions, %d obligations, %d discharged, %d probes (%d ok), %d violations, %.1fs\n", *prop, len(fnList), nObl, nDis, nProbe, nProbeOK, violations, time.Since(t0).Seconds())
	for _, l := range violationLines {
		fmt.Println(l)
	}
	if violations > 0 {
		return 1
	}
	return 0
}

// normID strips source-position dependent parts of an obligation id so that the
// baseline is insensitive to edits that move lines or renumber blocks.
var siteRe = regexp.MustCompile(`(/ret@\+\d+\.\d+|/b\d+|@\+\d+\.\d+)`)

func normID(id string) string { return siteRe.ReplaceAllString(id, "") }

func firstWordOf(s string) string {
	f := strings.Fields(s)
	if len(f) == 0 {
		return "error"
	}
	return strings.TrimSuffix(f[0], ":")
}

func dedup(xs []string) []string {
	seen := map[string]bool{}
	var out []string
	for _, x := range xs {
		if !seen[x] {
			seen[x] = true
			out = append(out, x)
		}
	}
	sort.Strings(out)
	return out
}

func writeEvidence(path string, ev *Evidence) {
	if ev.Assumptions == nil {
		ev.Assumptions = []string{}
	}
	data, _ := json.MarshalIndent(ev, "", " ")
	os.WriteFile(path, data, 0o644)
}

// tryReplay attempts to exhibit the failure on the real code. Returns true if a
// failing input was found and recorded in detail.
func tryReplay(w *World, prop string, o *Obligation, detail map[string]interface{}) bool {
	return replayObligation(w, prop, o, detail)
}

// rsAxiomLine reports how the axioms of rs stand in this run: bin/check runs Lean on prelude/Axioms.lean in
// the thorough tier and passes the outcome in VERIF_LEAN_AXIOMS.
func rsAxiomLine() string {
	base := "rs(v,e) = v/10^e axioms (sign, step by 10^k, monotonicity in e, order in v, linearity) instantiated per obligation; stated and proved in prelude/Axioms.lean"
	switch st := os.Getenv("VERIF_LEAN_AXIOMS"); {
	case st == "checked":
		return base + " - re-checked in this run by lean 4.33.0 + Mathlib (exit 0, no sorry); what stays trusted is that the generator's instances are instances of these theorems"
	case st != "":
		return base + " - NOT re-checked in this run (" + st + "); last successful Lean run: 2026-09-30, exit 0"
	}
	return base + " - not re-checked by the quick tier (a cold import of Mathlib takes minutes); the thorough tier runs Lean on the file; last successful run 2026-09-30, exit 0"
}
