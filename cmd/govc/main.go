package main

import (
	"flag"
	"fmt"
	"os"
	"path/filepath"
	"sort"
	"strings"
	"sync"
	"time"
)

type FuncReport struct {
	Name        string
	Err         error
	Obls        []*Obligation
	Warnings    []string
	HasContract bool
	Trusted     string
}

// genFunc generates the obligations of one function (all split cases).
func genFunc(w *World, name string) *FuncReport {
	rep := &FuncReport{Name: name}
	fn := w.funcs[name]
	if fn == nil {
		rep.Err = fmt.Errorf("%s: function not found in package (contract-anchor-lost)", name)
		return rep
	}
	c := w.contracts.Funcs[name]
	rep.HasContract = c != nil
	if c != nil && c.Trusted != "" {
		rep.Trusted = c.Trusted
		return rep
	}
	var cases []*int
	if c != nil && c.Split != nil {
		if !c.Split.Open {
			cases = append(cases, nil) // exhaustiveness run
		}
		for v := c.Split.Lo; v <= c.Split.Hi; v++ {
			vv := v
			cases = append(cases, &vv)
		}
		if c.Split.Open {
			below, above := c.Split.Lo-1, c.Split.Hi+1
			cases = append(cases, &below, &above)
		}
	} else {
		cases = []*int{nil}
	}
	for _, cs := range cases {
		x := newExec(w, fn, c, cs)
		if c != nil && c.Split != nil && cs == nil {
			x.suffix = "/split-range"
			x.splitRange = true
		}
		if err := x.Run(); err != nil {
			rep.Err = err
			return rep
		}
		for _, o := range x.vc.Obls {
			if x.splitRange && !o.Keep {
				continue
			}
			rep.Obls = append(rep.Obls, o)
		}
		rep.Warnings = append(rep.Warnings, x.warnings...)
	}
	return rep
}

func genAll(w *World, names []string) []*FuncReport {
	reps := make([]*FuncReport, len(names))
	var wg sync.WaitGroup
	sem := make(chan struct{}, 12)
	for i, n := range names {
		wg.Add(1)
		go func(i int, n string) {
			defer wg.Done()
			sem <- struct{}{}
			defer func() { <-sem }()
			defer func() {
				if r := recover(); r != nil {
					if os.Getenv("GOVC_DEBUG") != "" {
						panic(r)
					}
					reps[i] = &FuncReport{Name: n, Err: fmt.Errorf("%s: internal error: %v", n, r)}
				}
			}()
			reps[i] = genFunc(w, n)
		}(i, n)
	}
	wg.Wait()
	return reps
}

func envOr(k, d string) string {
	if v := os.Getenv(k); v != "" {
		return v
	}
	return d
}

func main() {
	if len(os.Args) < 2 {
		fmt.Fprintln(os.Stderr, "usage: govc <func|check|list|lemmas> ...")
		os.Exit(2)
	}
	repo := envOr("VERIF_REPO", "/repo")
	verif := envOr("VERIF_DIR", "/verif")
	switch os.Args[1] {
	case "func":
		fs := flag.NewFlagSet("func", flag.ExitOnError)
		timeout := fs.Int("t", 10, "solver timeout (s)")
		verbose := fs.Bool("v", false, "verbose")
		only := fs.String("only", "", "substring filter on obligation ids")
		nocache := fs.Bool("nocache", false, "bypass cache")
		fs.Parse(os.Args[2:])
		w, err := loadWorld(repo, verif)
		if err != nil {
			fmt.Fprintln(os.Stderr, "load:", err)
			os.Exit(2)
		}
		names := fs.Args()
		if len(names) == 1 && names[0] == "all" {
			names = w.contracts.Order
		}
		t0 := time.Now()
		reps := genAll(w, names)
		var obls []*Obligation
		for _, r := range reps {
			if r.Err != nil {
				fmt.Println("ERROR", r.Err)
				continue
			}
			for _, wn := range r.Warnings {
				if *verbose {
					fmt.Println("warn", r.Name+":", wn)
				}
			}
			for _, o := range r.Obls {
				if *only == "" || strings.Contains(o.ID, *only) {
					obls = append(obls, o)
				}
			}
		}
		fmt.Printf("generated %d obligations in %.1fs\n", len(obls), time.Since(t0).Seconds())
		opts := SolveOpts{WorkDir: filepath.Join(verif, "work"), TimeoutS: *timeout, UseCache: !*nocache}
		solveAll(obls, w.prelude, opts, nil)
		bad := 0
		allDead, deadRet := deadFunctions(obls)
		for _, o := range allDead {
			fmt.Println("FAIL all returns unreachable:", o.Func)
			bad++
		}
		if *verbose {
			for _, d := range deadRet {
				fmt.Println("note: unreachable return", d)
			}
		}
		sort.SliceStable(obls, func(i, j int) bool { return obls[i].ID < obls[j].ID })
		for _, o := range obls {
			ok := o.Discharged()
			if !ok {
				bad++
			}
			if *verbose || !ok {
				st := "ok  "
				if !ok {
					st = "FAIL"
				}
				fmt.Printf("%s %-70s %-8s %-7s %.2fs %s\n", st, o.ID, o.Result.Status, o.Result.Solver, o.Result.Seconds, o.Pos)
				if !ok {
					fmt.Printf("       %s\n       file: %s\n", o.Note, o.Result.File)
					if o.Result.Model != "" && *verbose {
						fmt.Printf("       model: %s\n", strings.ReplaceAll(o.Result.Model, "\n", " "))
					}
				}
			}
		}
		fmt.Printf("%d obligations, %d failed, %.1fs\n", len(obls), bad, time.Since(t0).Seconds())
		if bad > 0 {
			os.Exit(1)
		}
	case "lemmas":
		w, err := loadWorld(repo, verif)
		if err != nil {
			fmt.Fprintln(os.Stderr, "load:", err)
			os.Exit(2)
		}
		obls, err := genLemmas(w, nil)
		if err != nil {
			fmt.Println("ERROR", err)
			os.Exit(2)
		}
		opts := SolveOpts{WorkDir: filepath.Join(verif, "work"), TimeoutS: 20}
		solveAll(obls, w.prelude, opts, nil)
		bad := 0
		for _, o := range obls {
			if !o.Discharged() {
				bad++
				fmt.Printf("FAIL %s %s %s\n", o.ID, o.Result.Status, o.Result.File)
			} else {
				fmt.Printf("ok   %s %s %.2fs\n", o.ID, o.Result.Solver, o.Result.Seconds)
			}
		}
		if bad > 0 {
			os.Exit(1)
		}
	case "frame":
		w, err := loadWorld(repo, verif)
		if err != nil {
			fmt.Fprintln(os.Stderr, "load:", err)
			os.Exit(2)
		}
		fs, n, err := frameCheck(w)
		if err != nil {
			fmt.Println("ERROR", err)
			os.Exit(2)
		}
		for _, f := range fs {
			fmt.Printf("%s: %s: %s\n", f.Pos, f.Func, f.What)
		}
		fmt.Printf("%d functions, %d findings\n", n, len(fs))
	case "list":
		w, err := loadWorld(repo, verif)
		if err != nil {
			fmt.Fprintln(os.Stderr, "load:", err)
			os.Exit(2)
		}
		for _, n := range w.funcNames() {
			c := ""
			if cc := w.contracts.Funcs[n]; cc != nil {
				c = "contract props=" + strings.Join(cc.Props, ",")
			}
			fmt.Printf("%-40s %s\n", n, c)
		}
	case "check":
		os.Exit(checkMain(repo, verif, os.Args[2:]))
	default:
		fmt.Fprintln(os.Stderr, "unknown command", os.Args[1])
		os.Exit(2)
	}
}
