package main

import (
	"os"
	"fmt"
	"go/ast"
	"go/token"
	"go/types"
	"math/big"
	"sort"
	"strings"

	"golang.org/x/tools/go/ssa"
)

// Run symbolically executes the function and fills x.vc with obligations.
func (x *Exec) Run() (err error) {
	defer func() {
		if r := recover(); r != nil {
			if u, ok := r.(unsupported); ok {
				err = fmt.Errorf("%s: unsupported: %s", x.name, string(u))
				return
			}
			if u, ok := r.(evalErr); ok {
				err = fmt.Errorf("%s: contract error: %s", x.name, string(u))
				return
			}
			panic(r)
		}
	}()
	fn := x.fn
	if len(fn.Blocks) == 0 {
		return fmt.Errorf("%s: no body", x.name)
	}
	rpo := x.analyseCFG()
	x.cur = &State{mem: map[*Cell]Val{}}
	x.curPC = tTrue

	// parameters
	for _, p := range fn.Params {
		var v Val
		if pt, ok := p.Type().Underlying().(*types.Pointer); ok {
			// pointee cell
			x.ncell++
			c := &Cell{Name: "*" + p.Name(), Typ: pt.Elem(), ID: x.ncell}
			x.paramCells[p.Name()] = c
			x.cur.mem[c] = x.freshVal("in_"+p.Name()+"_pointee", pt.Elem())
			if _, isOpq := x.cur.mem[c].(Opaque); isOpq {
				v = Opaque{Desc: "ptr param " + p.Name(), Tag: func() T { t := x.vc.fresh("ptr_"+p.Name(), sortInt); return t }()}
				delete(x.cur.mem, c)
				delete(x.paramCells, p.Name())
			} else {
				v = Ptr{Cell: c}
				var ins []string
				collectInputs(x.cur.mem[c], &ins)
				x.vc.Inputs = append(x.vc.Inputs, ins...)
			}
		} else {
			v = x.freshVal("in_"+p.Name(), p.Type())
			var ins []string
			collectInputs(v, &ins)
			x.vc.Inputs = append(x.vc.Inputs, ins...)
		}
		x.regs[p] = v
		x.entry[p.Name()] = v
		rp := ReplayParam{Name: p.Name(), GoType: types.TypeString(p.Type(), func(*types.Package) string { return "" }), Receiver: fn.Signature.Recv() != nil && len(x.vc.Params) == 0}
		if _, isPtr := p.Type().Underlying().(*types.Pointer); isPtr {
			rp.Unsupported = "pointer parameter"
		} else if !replayLeaves(v, p.Type(), "", &rp.Leaves) {
			rp.Unsupported = "parameter type not replayable"
		}
		x.vc.Params = append(x.vc.Params, rp)
	}
	x.entryMem = x.cur.clone()
	// logical variables
	if x.contract != nil {
		for _, lv := range x.contract.Logical {
			var s Sort
			switch lv.Sort {
			case "int":
				s = x.th.SpecSort()
			case "real":
				s = sortReal
			case "bool":
				s = sortBool
			default:
				panic(unsupported("logical sort " + lv.Sort))
			}
			t := x.vc.fresh("lv_"+lv.Name, s)
			x.logical[lv.Name] = Leaf{T: t}
			x.vc.Inputs = append(x.vc.Inputs, t.S)
		}
		// requires
		env := x.entryEnv()
		var reqs []T
		reqStart := len(x.vc.lines)
		defer func() { _ = reqStart }()
		for _, r := range x.contract.Requires {
			t := x.evalBool(r, env)
			reqs = append(reqs, t)
			x.vc.assumeAlways(t)
		}
		x.vc.markAlways(reqStart)
		start := len(x.vc.lines)
		for _, mc := range x.contract.Mentions {
			x.evalIn(mc, env)
		}
		x.vc.markAlways(start)
		// vacuity probe: requires satisfiable
		o := x.oblige("vacuity/requires", "vacuity", tTrue, tFalse, "requires must be satisfiable", fn.Pos())
		o.MustFail = true
		// ghost variables
		for _, g := range x.contract.Ghosts {
			x.ncell++
			c := &Cell{Name: "ghost_" + g.Name, ID: x.ncell}
			v := Leaf{T: x.vc.define("ghost_"+g.Name, x.ev.specOf(x.evalIn(g.Init, env)))}
			x.cur.mem[c] = v
			x.ghostCells[g.Name] = c
			x.entry[g.Name] = v
		}
		for _, gs := range x.contract.GhostSets {
			if _, ok := x.ghostCells[gs.Name]; !ok {
				panic(unsupported("ghost assignment to undeclared variable " + gs.Name))
			}
		}
	}

	for _, b := range rpo {
		x.runBlock(b)
	}
	if x.contract != nil {
		for _, wv := range x.contract.Waivers {
			if !x.usedWaivers[wv] {
				x.warn("waiver %s at %q unused", wv.Kind, wv.Text)
			}
		}
		for _, c := range x.contract.Limits {
			if !x.cutsDone[c] {
				panic(unsupported("limit anchor \"" + c.Text + "\" not found (contract-anchor-lost)"))
			}
		}
		for _, ap := range x.contract.Applies {
			if !x.appliesDone[ap] {
				panic(unsupported("apply anchor for lemma " + ap.Lemma + " not found (contract-anchor-lost)"))
			}
		}
		for _, g := range x.contract.GhostSets {
			if !x.ghostDone[g] {
				panic(unsupported("ghost anchor \"" + g.Text + "\" not found (contract-anchor-lost)"))
			}
		}
		for _, ca := range x.contract.CallArgs {
			if !x.callArgsDone[ca] {
				panic(unsupported(fmt.Sprintf("callarg %s#%d: no such call (contract-anchor-lost)", ca.Callee, ca.Ordinal)))
			}
		}
		for _, a := range x.contract.Asserts {
			if !x.assertsDone[a] {
				panic(unsupported("assert anchor \"" + a.Text + "\" not found (contract-anchor-lost)"))
			}
		}
		for _, c := range x.contract.Cuts {
			if !x.cutsDone[c] {
				panic(unsupported("cut anchor \"" + c.Text + "\" not found (contract-anchor-lost)"))
			}
		}
		if x.contract.Split != nil && !x.splitDone {
			panic(unsupported("split variable " + x.contract.Split.Var + " never stored (contract-anchor-lost)"))
		}
	}
	return nil
}

func (x *Exec) entryEnv() *Env {
	env := &Env{vars: map[string]Val{}}
	for k, v := range x.logical {
		env.vars[k] = v
	}
	env.lookupCur = func(name string) (Val, bool) {
		if v, ok := x.entry[name]; ok {
			return v, true
		}
		if name == "DefaultRoundingMode" {
			return x.globalInput(name), true
		}
		return nil, false
	}
	env.lookupOld = env.lookupCur
	env.lookupType = paramTypes(x.fn)
	// deref in entry env reads entry memory
	return env
}

func (x *Exec) mergeVal(conds []T, vals []Val, hint string) Val {
	// all equal?
	same := true
	for i := 1; i < len(vals); i++ {
		if !valEqual(vals[0], vals[i]) {
			same = false
			break
		}
	}
	if same {
		return vals[0]
	}
	switch v0 := vals[0].(type) {
	case Leaf:
		res := vals[len(vals)-1].(Leaf)
		t := res.T
		for i := len(vals) - 2; i >= 0; i-- {
			l, ok := vals[i].(Leaf)
			if !ok {
				return Opaque{Desc: "merge mismatch"}
			}
			t = mkIte(conds[i], l.T, t)
		}
		return Leaf{T: x.vc.define(hint, t), MT: v0.MT}
	case Agg:
		out := make([]Val, len(v0.Elems))
		for k := range v0.Elems {
			sub := make([]Val, len(vals))
			for i := range vals {
				a, ok := vals[i].(Agg)
				if !ok || len(a.Elems) != len(v0.Elems) {
					return Opaque{Desc: "merge mismatch"}
				}
				sub[i] = a.Elems[k]
			}
			out[k] = x.mergeVal(conds, sub, hint)
		}
		return Agg{Elems: out}
	case *SliceV:
		res := *v0
		mk := func(get func(s *SliceV) T, h string) (T, bool) {
			ts := make([]Val, len(vals))
			for i := range vals {
				s, ok := vals[i].(*SliceV)
				if !ok {
					return T{}, false
				}
				ts[i] = Leaf{T: get(s)}
			}
			return x.mergeVal(conds, ts, hint+h).(Leaf).T, true
		}
		var ok1, ok2, ok3, ok4 bool
		res.Off, ok1 = mk(func(s *SliceV) T { return s.Off }, "_off")
		res.Len, ok2 = mk(func(s *SliceV) T { return s.Len }, "_len")
		res.Cap, ok3 = mk(func(s *SliceV) T { return s.Cap }, "_cap")
		ok4 = true
		for i := range vals {
			s, ok := vals[i].(*SliceV)
			if !ok || s.Back != v0.Back {
				ok4 = false
			}
		}
		if v0.Back == nil && ok4 {
			res.Arr, ok4 = mk(func(s *SliceV) T { return s.Arr }, "_arr")
		}
		if ok1 && ok2 && ok3 && !ok4 {
			// different backing stores: the merged slice gets its own store holding the selected
			// contents (aliasing with the originals is not tracked beyond this point)
			allSlices := true
			arrs := make([]Val, len(vals))
			for i := range vals {
				s, ok := vals[i].(*SliceV)
				if !ok {
					allSlices = false
					break
				}
				a := s.Arr
				if s.Back != nil {
					cv, has := x.mergeSource(i, s.Back)
					if !has {
						allSlices = false
						break
					}
					a = cv
				}
				arrs[i] = Leaf{T: a}
			}
			if allSlices {
				x.ncell++
				nc := &Cell{Name: "merged_backing", ID: x.ncell}
				x.cur.mem[nc] = x.mergeVal(conds, arrs, hint+"_marr")
				res.Back = nc
				res.Arr = T{}
				return &res
			}
		}
		if !(ok1 && ok2 && ok3 && ok4) {
			return Opaque{Desc: "slice merge with different backing stores"}
		}
		return &res
	case FloatV:
		t := vals[len(vals)-1].(FloatV).Bits
		for i := len(vals) - 2; i >= 0; i-- {
			f, ok := vals[i].(FloatV)
			if !ok {
				return Opaque{Desc: "merge mismatch"}
			}
			t = mkIte(conds[i], f.Bits, t)
		}
		return FloatV{Bits: x.vc.define(hint, t), W: v0.W}
	case Ptr, PtrSet:
		// pointers to modelled math/big values: keep every alternative with its path condition
		ps := PtrSet{}
		for i, v := range vals {
			if sub, isSet := v.(PtrSet); isSet {
				for k, sp := range sub.Ptrs {
					ps.Conds = append(ps.Conds, mkAnd(conds[i], sub.Conds[k]))
					ps.Ptrs = append(ps.Ptrs, sp)
				}
				continue
			}
			p, ok := v.(Ptr)
			if !ok || len(p.Path) != 0 || !(strings.HasPrefix(p.Cell.Name, "big_") || (p.Cell.Typ != nil && bigKind(p.Cell.Typ) != "")) {
				if os.Getenv("GOVC_DEBUG") != "" {
					fmt.Fprintf(os.Stderr, "pointer merge fails: %T %+v\n", v, v)
				}
				return Opaque{Desc: "pointer merge"}
			}
			ps.Conds = append(ps.Conds, conds[i])
			ps.Ptrs = append(ps.Ptrs, p)
		}
		return ps
	case Opaque:
		if v0.Tag.S != "" {
			ts := make([]Val, len(vals))
			for i := range vals {
				o, ok := vals[i].(Opaque)
				if !ok || o.Tag.S == "" {
					return Opaque{Desc: "merge mismatch"}
				}
				ts[i] = Leaf{T: o.Tag}
			}
			return Opaque{Desc: v0.Desc, Tag: x.mergeVal(conds, ts, hint+"_tag").(Leaf).T}
		}
		return v0
	}
	return Opaque{Desc: "merge"}
}

func valEqual(a, b Val) bool {
	switch x := a.(type) {
	case Leaf:
		y, ok := b.(Leaf)
		return ok && x.T.S == y.T.S
	case Agg:
		y, ok := b.(Agg)
		if !ok || len(x.Elems) != len(y.Elems) {
			return false
		}
		for i := range x.Elems {
			if !valEqual(x.Elems[i], y.Elems[i]) {
				return false
			}
		}
		return true
	case *SliceV:
		y, ok := b.(*SliceV)
		return ok && x.Back == y.Back && x.Arr.S == y.Arr.S && x.Off.S == y.Off.S && x.Len.S == y.Len.S && x.Cap.S == y.Cap.S
	case Ptr:
		y, ok := b.(Ptr)
		if !ok || x.Cell != y.Cell || len(x.Path) != len(y.Path) {
			return false
		}
		for i := range x.Path {
			if x.Path[i].Const != y.Path[i].Const || (x.Path[i].Sym == nil) != (y.Path[i].Sym == nil) {
				return false
			}
			if x.Path[i].Sym != nil && x.Path[i].Sym.S != y.Path[i].Sym.S {
				return false
			}
		}
		return true
	case FloatV:
		y, ok := b.(FloatV)
		return ok && x.W == y.W && x.Bits.S == y.Bits.S
	case PtrSet:
		y, ok := b.(PtrSet)
		if !ok || len(x.Ptrs) != len(y.Ptrs) {
			return false
		}
		for i := range x.Ptrs {
			if x.Ptrs[i].Cell != y.Ptrs[i].Cell || x.Conds[i].S != y.Conds[i].S {
				return false
			}
		}
		return true
	case Opaque:
		y, ok := b.(Opaque)
		return ok && x.Tag.S == y.Tag.S && x.Desc == y.Desc
	}
	return false
}

func (x *Exec) runBlock(b *ssa.BasicBlock) {
	x.curBlock = b
	// incoming forward edges
	var conds []T
	var states []*State
	var preds []*ssa.BasicBlock
	if b == x.fn.Blocks[0] {
		// entry
	} else {
		for _, p := range b.Preds {
			if x.backEdge[[2]*ssa.BasicBlock{p, b}] {
				continue
			}
			st, ok := x.out[p]
			if !ok {
				continue // unreachable predecessor
			}
			for si, s := range p.Succs {
				if s == b {
					conds = append(conds, x.edge[p][si])
					states = append(states, st)
					preds = append(preds, p)
				}
			}
		}
		if len(states) == 0 {
			return // unreachable
		}
		pc := x.vc.define(fmt.Sprintf("pc_b%d", b.Index), mkOr(conds...))
		x.curPC = pc
		x.mergeStates = states
		if len(states) == 1 {
			x.cur = states[0].clone()
		} else {
			x.cur = &State{mem: map[*Cell]Val{}}
			// deterministic order (cell creation order): the text of the verification conditions, and with
			// it solver behaviour and the result cache, must not depend on map iteration
			var mcells []*Cell
			seenCell := map[*Cell]bool{}
			for _, st := range states {
				for c := range st.mem {
					if !seenCell[c] {
						seenCell[c] = true
						mcells = append(mcells, c)
					}
				}
			}
			sort.Slice(mcells, func(i, j int) bool { return mcells[i].ID < mcells[j].ID })
			for _, c := range mcells {
				// a cell created on some of the incoming paths only (a local of a branch, a math/big value
				// allocated there) cannot be reached on the other paths: its value there is immaterial,
				// the value of a path that has it stands in
				var standin Val
				for _, st := range states {
					if v, has := st.mem[c]; has {
						standin = v
						break
					}
				}
				vals := make([]Val, len(states))
				for k, st := range states {
					if v, has := st.mem[c]; has {
						vals[k] = v
					} else {
						vals[k] = standin
					}
				}
				x.cur.mem[c] = x.mergeVal(conds, vals, "m_"+c.Name)
			}
		}
	}
	x.pcs[b] = x.curPC

	if li := x.loops[b]; li != nil {
		x.enterLoop(li)
	}

	var lastPos token.Pos
	for _, ins := range b.Instrs {
		x.curInstr = ins
		switch ins.(type) {
		case *ssa.Jump, *ssa.If, *ssa.Return:
			x.maybeGhost(lastPos, "after")
			x.maybeAssertAfter(lastPos)
		}
		x.maybeGhost(ins.Pos(), "before")
		if ins.Pos().IsValid() {
			lastPos = ins.Pos()
		}
		if x.fileOrder() {
			// "uses order=file": lemma applications and assertions anchored at the same line are processed
			// in the order in which the contract lists them (the default is all applications first)
			for _, ln := range x.pendingLines(ins) {
				x.onlyLine = ln
				x.maybeApply(ins)
				x.maybeAssert(ins)
			}
			x.onlyLine = 0
		} else {
			x.maybeApply(ins)
			x.maybeAssert(ins)
		}
		if x.maybeLimit(ins) {
			x.curInstr = nil
			return // the rest of this path is outside the contract's scope
		}
		x.maybeCut(ins)
		x.step(ins, preds, conds)
	}
	x.curInstr = nil
	x.out[b] = x.cur

	// back edges out of this block
	for si, s := range b.Succs {
		if x.backEdge[[2]*ssa.BasicBlock{b, s}] {
			x.closeLoop(x.loops[s], x.edge[b][si])
		}
	}
}

// maybeCut implements "cut before <text>": at the first instruction on a source line
// containing the text, the clause is proved, the listed variables are havocked, the
// clause is assumed, and the path condition restarts from true (the cut point must
// dominate everything executed afterwards; early returns before it are unaffected).
func (x *Exec) maybeCut(ins ssa.Instruction) {
	if x.contract == nil || len(x.contract.Cuts) == 0 {
		return
	}
	pos := ins.Pos()
	if !pos.IsValid() {
		return
	}
	text := x.lineText(pos)
	for _, c := range x.contract.Cuts {
		if x.cutsDone[c] || !strings.Contains(text, c.Text) {
			continue
		}
		if x.cutLine(c) != x.w.fset.Position(pos).Line {
			continue
		}
		x.cutsDone[c] = true
		env := x.envAt(pos)
		t := x.evalBool(c.Clause, env)
		cid := fmt.Sprintf("cut/%s.%d", identSan.ReplaceAllString(c.Text, "_"), c.Ord)
		if c.SplitVar != "" {
			sv, ok := x.lookupVarAt(c.SplitVar, pos)
			if !ok {
				panic(unsupported("cut split: unknown variable " + c.SplitVar + " (contract-anchor-lost)"))
			}
			svt := x.ev.specOf(sv)
			for k := c.SplitLo; k <= c.SplitHi; k++ {
				pck := x.vc.define("pc_case", mkAnd(x.curPC, mkEq(svt, intT64(int64(k)))))
				x.oblige(fmt.Sprintf("%s/%s=%d", cid, c.SplitVar, k), "cut", pck, t, c.Clause.Text, pos)
			}
			x.oblige(cid+"/cases-exhaustive", "cut", x.curPC, mkAnd(mkCmp("<=", intT64(int64(c.SplitLo)), svt), mkCmp("<=", svt, intT64(int64(c.SplitHi)))), "case split on "+c.SplitVar+" is exhaustive", pos)
		} else {
			x.oblige(cid, "cut", x.curPC, t, c.Clause.Text, pos)
		}
		for _, name := range c.Havoc {
			cell := x.lookupCellAt(name, pos)
			if cell == nil {
				panic(unsupported("cut: unknown variable " + name + " (contract-anchor-lost)"))
			}
			x.cur.mem[cell] = x.havocLike(x.cur.mem[cell], "cut_"+name)
		}
		env = x.envAt(pos)
		t = x.evalBool(c.Clause, env)
		// the path condition restarts from an unconstrained boolean: what follows is proved for
		// every state satisfying the clause, whether or not it is reachable
		npc := x.vc.fresh("pc_cut", sortBool)
		x.vc.assume(mkImp(npc, t))
		x.curPC = npc
		o := x.oblige(cid+"/cover", "cover", npc, tFalse, "cut assumption satisfiable", pos)
		o.MustFail = true
	}
}

// maybeLimit implements "limit before <text>": the contract does not speak about executions that
// reach this point. That is sound only if every ensures clause is vacuous there, so each clause
// must be an implication whose guard is proved false at the anchor; exploration of the path stops.
func (x *Exec) maybeLimit(ins ssa.Instruction) bool {
	if x.contract == nil || len(x.contract.Limits) == 0 {
		return false
	}
	pos := ins.Pos()
	if !pos.IsValid() {
		return false
	}
	text := x.lineText(pos)
	for k, c := range x.contract.Limits {
		if !strings.Contains(text, c.Text) || x.cutLine(c) != x.w.fset.Position(pos).Line {
			continue
		}
		x.cutsDone[c] = true
		env := x.entryEnv()
		// result names stand for arbitrary values here: the guard must be false whatever is returned
		sigRes := x.fn.Signature.Results()
		for k := 0; k < sigRes.Len(); k++ {
			fv := x.freshVal(fmt.Sprintf("anyres%d", k), sigRes.At(k).Type())
			if k < len(x.contract.Returns) && x.contract.Returns[k] != "" && x.contract.Returns[k] != "_" {
				env.vars[x.contract.Returns[k]] = fv
			} else if sigRes.At(k).Name() != "" && sigRes.At(k).Name() != "_" {
				env.vars[sigRes.At(k).Name()] = fv
			}
			env.vars[fmt.Sprintf("$%d", k+1)] = fv
			if sigRes.Len() == 1 {
				env.vars["result"] = fv
			}
		}
		for n, e := range x.contract.Ensures {
			imp, ok := e.E.(*EBin)
			if !ok || imp.Op != "==>" {
				x.oblige(fmt.Sprintf("limit/%d/ensures/%d", k+1, n+1), "limit", x.curPC, tFalse, "ensures clause is not an implication; it cannot be vacuous beyond the limit: "+e.Text, pos)
				continue
			}
			g := x.ev.boolOf(x.evalIn(&Clause{E: imp.L, Text: e.Text, Line: e.Line}, env))
			x.oblige(fmt.Sprintf("limit/%d/ensures/%d", k+1, n+1), "limit", x.curPC, mkNot(g), "guard false beyond the limit: "+e.Text, pos)
		}
		x.limited = true
		return true
	}
	return false
}

// applyLemma proves the hypotheses of a lemma instance at the current point and assumes its conclusion.
func (x *Exec) applyLemma(ap *ApplySpec, pos token.Pos, id string) {
	var lem *Lemma
	for _, l := range x.w.contracts.Lemmas {
		if l.Name == ap.Lemma {
			lem = l
		}
	}
	if lem == nil {
		panic(unsupported("apply: unknown lemma " + ap.Lemma))
	}
	if len(lem.Vars) != len(ap.Args) {
		panic(unsupported(fmt.Sprintf("apply %s: %d arguments for %d variables", ap.Lemma, len(ap.Args), len(lem.Vars))))
	}
	cenv := x.envAt(pos)
	lenv := &Env{vars: map[string]Val{}}
	for k, lv := range lem.Vars {
		v := x.evalIn(ap.Args[k], cenv)
		if l, ok := v.(Leaf); ok {
			t := x.ev.specOf(l)
			if lv.Sort == "real" {
				t = realOfInt(t)
			}
			v = Leaf{T: x.vc.define("arg_"+lv.Name, t)}
		}
		lenv.vars[lv.Name] = v
	}
	pc := x.curPC
	if ap.When != nil {
		pc = mkAnd(pc, x.evalBool(ap.When, cenv))
	}
	for k, h := range lem.Hyps {
		t := x.evalBool(h, lenv)
		x.oblige(fmt.Sprintf("%s/hyp/%d", id, k+1), "lemma-hyp", pc, t, ap.Lemma+": "+h.Text, pos)
	}
	g := x.evalBool(lem.Goal, lenv)
	x.vc.assume(mkImp(pc, g))
	x.w.noteLemmaUse(ap.Lemma)
}

func (x *Exec) fileOrder() bool {
	if x.contract == nil {
		return false
	}
	for _, u := range x.contract.Uses {
		if u == "order=file" {
			return true
		}
	}
	return false
}

// pendingLines lists the contract lines of the applications and before-assertions anchored at this
// instruction's source line that have not been processed yet, in ascending order.
func (x *Exec) pendingLines(ins ssa.Instruction) []int {
	pos := ins.Pos()
	if !pos.IsValid() {
		return nil
	}
	text := x.lineText(pos)
	line := x.w.fset.Position(pos).Line
	seen := map[int]bool{}
	var out []int
	for _, ap := range x.contract.Applies {
		if ap.Loop == 0 && !x.appliesDone[ap] && strings.Contains(text, ap.Text) && x.cutLine(&CutSpec{Text: ap.Text, Ord: ap.Ord}) == line && !seen[ap.Line] {
			seen[ap.Line] = true
			out = append(out, ap.Line)
		}
	}
	for _, a := range x.contract.Asserts {
		if a.Where != "after" && !x.assertsDone[a] && strings.Contains(text, a.Text) && x.cutLine(&CutSpec{Text: a.Text, Ord: a.Ord}) == line && !seen[a.Clause.Line] {
			seen[a.Clause.Line] = true
			out = append(out, a.Clause.Line)
		}
	}
	sort.Ints(out)
	return out
}

func (x *Exec) maybeApply(ins ssa.Instruction) {
	if x.contract == nil || len(x.contract.Applies) == 0 {
		return
	}
	pos := ins.Pos()
	if !pos.IsValid() {
		return
	}
	text := x.lineText(pos)
	for k, ap := range x.contract.Applies {
		if ap.Loop != 0 || x.appliesDone[ap] || !strings.Contains(text, ap.Text) || (x.onlyLine != 0 && ap.Line != x.onlyLine) {
			continue
		}
		if x.cutLine(&CutSpec{Text: ap.Text, Ord: ap.Ord}) != x.w.fset.Position(pos).Line {
			continue
		}
		x.appliesDone[ap] = true
		x.applyLemma(ap, pos, fmt.Sprintf("apply/%d", k+1))
	}
}

// maybeAssert implements "assert before <text>#n: e": e is proved at the first instruction on
// the n-th source line containing the text and is then available as a lemma.
func (x *Exec) maybeAssert(ins ssa.Instruction) {
	if x.contract == nil || len(x.contract.Asserts) == 0 {
		return
	}
	pos := ins.Pos()
	if !pos.IsValid() {
		return
	}
	text := x.lineText(pos)
	for k, a := range x.contract.Asserts {
		if a.Where == "after" || x.assertsDone[a] || !strings.Contains(text, a.Text) || (x.onlyLine != 0 && a.Clause.Line != x.onlyLine) {
			continue
		}
		if x.cutLine(&CutSpec{Text: a.Text, Ord: a.Ord}) != x.w.fset.Position(pos).Line {
			continue
		}
		x.assertsDone[a] = true
		t := x.evalBool(a.Clause, x.envAt(pos))
		if !a.Assume {
			x.oblige(fmt.Sprintf("assert/%d", k+1), "assert", x.curPC, t, a.Clause.Text, pos)
		} else {
			x.w.noteTrusted(x.name+" assume", a.Clause.Text)
		}
		x.vc.assume(mkImp(x.curPC, t))
	}
}

// maybeGhost performs the ghost assignments anchored at this point (in the order of the contract).
func (x *Exec) maybeGhost(pos token.Pos, where string) {
	if x.contract == nil || len(x.contract.GhostSets) == 0 || !pos.IsValid() {
		return
	}
	text := x.lineText(pos)
	for _, g := range x.contract.GhostSets {
		if g.Where != where || x.ghostDone[g] || !strings.Contains(text, g.Text) {
			continue
		}
		if x.cutLine(&CutSpec{Text: g.Text, Ord: g.Ord}) != x.w.fset.Position(pos).Line {
			continue
		}
		x.ghostDone[g] = true
		if os.Getenv("GOVC_DEBUG") != "" {
			fmt.Fprintf(os.Stderr, "ghost %s %s %q: %s = %s (block %d)\n", x.name, g.Where, g.Text, g.Name, g.Clause.Text, x.curBlock.Index)
		}
		v := x.ev.specOf(x.evalIn(g.Clause, x.envAt(pos)))
		x.cur.mem[x.ghostCells[g.Name]] = Leaf{T: x.vc.define("ghost_"+g.Name, v)}
	}
}

// maybeAssertAfter implements "assert after <text>#n: e": e is proved at the end of the basic
// block whose last statement is on the n-th source line containing the text (the end of a branch
// body), before control leaves the block.
func (x *Exec) maybeAssertAfter(pos token.Pos) {
	if x.contract == nil || len(x.contract.Asserts) == 0 || !pos.IsValid() {
		return
	}
	text := x.lineText(pos)
	for k, a := range x.contract.Asserts {
		if a.Where != "after" || x.assertsDone[a] || !strings.Contains(text, a.Text) {
			continue
		}
		if x.cutLine(&CutSpec{Text: a.Text, Ord: a.Ord}) != x.w.fset.Position(pos).Line {
			continue
		}
		x.assertsDone[a] = true
		t := x.evalBool(a.Clause, x.envAt(pos))
		if !a.Assume {
			x.oblige(fmt.Sprintf("assert/%d", k+1), "assert", x.curPC, t, a.Clause.Text, pos)
		} else {
			x.w.noteTrusted(x.name+" assume", a.Clause.Text)
		}
		x.vc.assume(mkImp(x.curPC, t))
	}
}

// cutLine returns the source line of the Ord-th line (within the function) containing the cut's text.
func (x *Exec) cutLine(c *CutSpec) int {
	syn := x.fn.Syntax()
	if syn == nil {
		return -1
	}
	start := x.w.fset.Position(syn.Pos())
	end := x.w.fset.Position(syn.End())
	x.lineText(syn.Pos())
	lines := x.srcLines[start.Filename]
	n := 0
	for ln := start.Line; ln <= end.Line && ln-1 < len(lines); ln++ {
		if strings.Contains(lines[ln-1], c.Text) {
			n++
			if n == c.Ord {
				return ln
			}
		}
	}
	return -1
}

func (x *Exec) loopPos(li *loopInfo) token.Pos {
	if li.stmt != nil {
		return bodyPos(li.stmt)
	}
	return li.minPos
}

func bodyPos(n ast.Node) token.Pos {
	switch s := n.(type) {
	case *ast.ForStmt:
		return s.Body.Lbrace + 1
	case *ast.RangeStmt:
		return s.Body.Lbrace + 1
	}
	return n.Pos()
}

func (x *Exec) enterLoop(li *loopInfo) {
	// cells modified in the loop
	for blk := range li.body {
		for _, ins := range blk.Instrs {
			switch s := ins.(type) {
			case *ssa.Store:
				if c := x.rootCell(s.Addr); c != nil {
					li.mod[c] = true
				}
			case *ssa.Call:
				if bi, ok := s.Call.Value.(*ssa.Builtin); ok && (bi.Name() == "len" || bi.Name() == "cap" || bi.Name() == "min" || bi.Name() == "max" || bi.Name() == "ssa:deferstack") {
					continue
				}
				for _, a := range s.Call.Args {
					if _, ok := a.Type().Underlying().(*types.Pointer); ok {
						if c := x.rootCell(a); c != nil {
							li.mod[c] = true
						}
					}
					if _, ok := a.Type().Underlying().(*types.Slice); ok {
						li.mod[nil] = true // slice backing stores: havoc all
					}
				}
			}
		}
	}
	// ghost variables assigned at an anchor inside the loop
	if x.contract != nil {
		for _, gs := range x.contract.GhostSets {
			line := x.cutLine(&CutSpec{Text: gs.Text, Ord: gs.Ord})
			for blk := range li.body {
				for _, ins := range blk.Instrs {
					if ins.Pos().IsValid() && x.w.fset.Position(ins.Pos()).Line == line {
						li.mod[x.ghostCells[gs.Name]] = true
					}
				}
			}
		}
	}
	pos := x.loopPos(li)
	id := fmt.Sprintf("loop%d", li.ordinal)
	if x.contract != nil {
		for k, ap := range x.contract.Applies {
			if ap.Loop == li.ordinal {
				x.appliesDone[ap] = true
				x.applyLemma(ap, pos, fmt.Sprintf("%s/apply/%d", id, k+1))
			}
		}
	}
	env := x.envAt(pos)
	if li.spec != nil {
		for i, inv := range li.spec.Invariants {
			t := x.evalBool(inv, env)
			x.oblige(fmt.Sprintf("%s/inv-entry/%d", id, i+1), "inv-entry", x.curPC, t, inv.Text, pos)
		}
	}
	// havoc
	var cells []*Cell
	for c := range x.cur.mem {
		cells = append(cells, c)
	}
	sort.Slice(cells, func(i, j int) bool { return cells[i].ID < cells[j].ID })
	for _, c := range cells {
		isBacking := strings.HasSuffix(c.Name, "_backing")
		if li.mod[c] || (isBacking && (li.mod[nil] || x.sliceStoredIn(li, c))) {
			before := x.cur.mem[c]
			x.cur.mem[c] = x.havocLike(before, "h_"+c.Name)
			if b, ok := before.(*SliceV); ok && x.appendOnly(li, c) {
				// every assignment to this slice variable in the loop is v = append(v, ...), which keeps
				// the offset of the slice within its backing store: the offset is not havocked
				h := *(x.cur.mem[c].(*SliceV))
				h.Off = b.Off
				x.cur.mem[c] = &h
			}
		}
	}
	if li.spec != nil {
		env = x.envAt(pos)
		if li.spec.Isolate {
			x.curPC = x.vc.fresh("pc_loop", sortBool)
			x.pcs[li.header] = x.curPC
		}
		for _, inv := range li.spec.Invariants {
			t := x.evalBool(inv, env)
			x.vc.assume(mkImp(x.curPC, t))
		}
		if li.spec.Decreases != nil {
			v := x.ev.specOf(x.ev.Eval(li.spec.Decreases.E, env))
			li.dec0 = x.vc.define("dec0", v)
			li.hasDec = true
		}
	}
	if li.spec == nil || li.spec.Decreases == nil {
		x.warn("loop %d has no variant (termination not proved)", li.ordinal)
	}
	li.head = x.cur.clone()
	// cover probe: loop body reachable
	if !x.waived("cover", pos) {
		o := x.oblige(id+"/cover", "cover", x.curPC, tFalse, "loop head reachable under invariant", pos)
		o.MustFail = true
	}
}

func (x *Exec) sliceStoredIn(li *loopInfo, c *Cell) bool {
	// conservative: any store through a non-alloc-rooted address in the loop
	for blk := range li.body {
		for _, ins := range blk.Instrs {
			if s, ok := ins.(*ssa.Store); ok {
				if x.rootCell(s.Addr) == nil {
					return true
				}
			}
			if c, ok := ins.(*ssa.Call); ok {
				if b, ok := c.Call.Value.(*ssa.Builtin); ok && (b.Name() == "copy" || b.Name() == "append") {
					return true
				}
			}
		}
	}
	return false
}

// appendOnly reports whether every store to the variable cell c inside the loop has the form
// c = append(c, ...).
func (x *Exec) appendOnly(li *loopInfo, c *Cell) bool {
	n := 0
	for blk := range li.body {
		for _, ins := range blk.Instrs {
			st, ok := ins.(*ssa.Store)
			if !ok || x.rootCell(st.Addr) != c {
				continue
			}
			call, ok := st.Val.(*ssa.Call)
			if !ok {
				return false
			}
			bi, ok := call.Call.Value.(*ssa.Builtin)
			if !ok || bi.Name() != "append" {
				return false
			}
			ld, ok := call.Call.Args[0].(*ssa.UnOp)
			if !ok || ld.Op != token.MUL || ld.X != st.Addr {
				return false
			}
			n++
		}
	}
	return n > 0
}

func (x *Exec) havocLike(v Val, hint string) Val {
	switch y := v.(type) {
	case FloatV:
		return x.freshFloat(hint, y.W)
	case Leaf:
		if y.MT != nil {
			c := x.vc.fresh(hint, x.th.Sort(*y.MT))
			x.vc.assume(x.th.Range(c, *y.MT))
			return Leaf{T: c, MT: y.MT}
		}
		return Leaf{T: x.vc.fresh(hint, y.T.Sort)}
	case Agg:
		out := make([]Val, len(y.Elems))
		for i := range y.Elems {
			out[i] = x.havocLike(y.Elems[i], fmt.Sprintf("%s_%d", hint, i))
		}
		return Agg{Elems: out}
	case *SliceV:
		s := *y
		if strings.HasPrefix(hint, "cut_") {
			// the position of the slice within its backing store is not expressible in a cut formula; the
			// value it has at the cut is kept (forgetting less is sound)
			s.Off = y.Off
		} else {
			s.Off = x.vc.fresh(hint+"_off", sortInt)
		}
		s.Len = x.vc.fresh(hint+"_len", sortInt)
		s.Cap = x.vc.fresh(hint+"_cap", sortInt)
		x.vc.assume(mkAnd(mkCmp("<=", intT64(0), s.Off), mkCmp("<=", intT64(0), s.Len), mkCmp("<=", s.Len, s.Cap), mkCmp("<=", s.Cap, intT64(maxSliceLen)), mkCmp("<=", s.Off, intT64(maxSliceLen))))
		if y.Back == nil {
			s.Arr = x.vc.fresh(hint+"_arr", sortArr)
		} else if strings.HasPrefix(hint, "cut_") {
			// a cut forgets the contents of the backing store as well (the cell, hence aliasing, is kept)
			x.cur.mem[y.Back] = Leaf{T: x.vc.fresh(hint+"_marr", sortArr)}
		}
		return &s
	case Opaque:
		if y.Tag.S != "" {
			return Opaque{Desc: y.Desc, Tag: x.vc.fresh(hint+"_tag", sortInt)}
		}
		return y
	case Ptr:
		return y // pointers to locals do not change in the supported subset (checked at stores)
	}
	return v
}

func (x *Exec) closeLoop(li *loopInfo, edgeCond T) {
	pos := x.loopPos(li)
	id := fmt.Sprintf("loop%d", li.ordinal)
	env := x.envAt(pos)
	src := x.curBlock.Index
	if li.spec != nil {
		for i, inv := range li.spec.Invariants {
			t := x.evalBool(inv, env)
			x.oblige(fmt.Sprintf("%s/inv-preserve/%d/b%d", id, i+1, src), "inv-preserve", edgeCond, t, inv.Text, pos)
		}
		if li.hasDec {
			v := x.ev.specOf(x.ev.Eval(li.spec.Decreases.E, env))
			var goal T
			if v.Sort.K == SBV {
				goal = mkAnd(x.th.SpecCmp(">=", li.dec0, x.th.SpecLit(big.NewInt(0))), x.th.SpecCmp("<", v, li.dec0))
			} else {
				goal = mkAnd(mkCmp(">=", li.dec0, intT64(0)), mkCmp("<", v, li.dec0))
			}
			x.oblige(fmt.Sprintf("%s/decreases/b%d", id, src), "decreases", edgeCond, goal, li.spec.Decreases.Text, pos)
		}
	}
}

func (x *Exec) rootCell(v ssa.Value) *Cell {
	for {
		switch a := v.(type) {
		case *ssa.Alloc:
			return x.cellFor(a)
		case *ssa.IndexAddr:
			v = a.X
		case *ssa.FieldAddr:
			v = a.X
		case *ssa.Parameter:
			return x.paramCells[a.Name()]
		case *ssa.UnOp:
			// load of a pointer variable: look through parameter spill
			if a.Op == token.MUL {
				if al, ok := a.X.(*ssa.Alloc); ok {
					// pointer stored in local: find pointee by name of param
					if c, ok := x.paramCells[al.Comment]; ok {
						return c
					}
				}
			}
			return nil
		case *ssa.Global:
			return nil
		default:
			return nil
		}
	}
}

func (x *Exec) cellFor(a *ssa.Alloc) *Cell {
	c := x.cells[a]
	if c == nil {
		x.ncell++
		c = &Cell{Name: a.Comment, Typ: a.Type().Underlying().(*types.Pointer).Elem(), ID: x.ncell}
		if c.Name == "" {
			c.Name = a.Name()
		}
		x.cells[a] = c
		if a.Pos().IsValid() {
			if _, dup := x.cellByPos[a.Pos()]; !dup {
				x.cellByPos[a.Pos()] = c
			}
		}
	}
	return c
}

func (x *Exec) get(v ssa.Value) Val {
	switch c := v.(type) {
	case *ssa.Const:
		return x.constVal(c)
	case *ssa.Global:
		return x.globalPtr(c)
	case *ssa.Function:
		return Opaque{Desc: "func " + c.Name()}
	case *ssa.Builtin:
		return Opaque{Desc: "builtin " + c.Name()}
	}
	r, ok := x.regs[v]
	if !ok {
		panic(unsupported(fmt.Sprintf("use of undefined value %s (%T)", v.Name(), v)))
	}
	return r
}

func (x *Exec) leafOf(v ssa.Value) Leaf {
	l, ok := x.get(v).(Leaf)
	if !ok {
		panic(unsupported(fmt.Sprintf("expected scalar for %s: %s, got %T", v.Name(), v.Type(), x.get(v))))
	}
	return l
}

func (x *Exec) step(ins ssa.Instruction, preds []*ssa.BasicBlock, conds []T) {
	switch i := ins.(type) {
	case *ssa.DebugRef, *ssa.RunDefers:
		return
	case *ssa.Alloc:
		c := x.cellFor(i)
		x.cur.mem[c] = x.zeroVal(c.Typ)
		x.regs[i] = Ptr{Cell: c}
	case *ssa.Store:
		val := x.get(i.Val)
		addr := x.get(i.Addr)
		switch p := addr.(type) {
		case Ptr:
			// split handling
			if x.contract != nil && x.contract.Split != nil && !x.splitDone && p.Cell.Name == x.contract.Split.Var && len(p.Path) == 0 {
				if l, ok := val.(Leaf); ok && l.MT != nil {
					x.splitDone = true
					if x.splitRange {
						sp := x.contract.Split
						v := x.ev.specOf(l)
						var g T
						if v.Sort.K == SInt {
							g = mkAnd(mkCmp("<=", intT64(int64(sp.Lo)), v), mkCmp("<=", v, intT64(int64(sp.Hi))))
						} else {
							g = mkAnd(x.th.SpecCmp("<=", x.th.SpecLit(big.NewInt(int64(sp.Lo))), v), x.th.SpecCmp("<=", v, x.th.SpecLit(big.NewInt(int64(sp.Hi)))))
						}
						o := x.oblige("split-range", "split-range", x.curPC, g, "case split is exhaustive", i.Pos())
						o.Keep = true
					} else if x.splitVal != nil && x.contract.Split.Open && (*x.splitVal < x.contract.Split.Lo || *x.splitVal > x.contract.Split.Hi) {
						v := x.ev.specOf(l)
						if *x.splitVal < x.contract.Split.Lo {
							x.vc.assumeAlways(mkImp(x.curPC, mkCmp("<", v, intT64(int64(x.contract.Split.Lo)))))
						} else {
							x.vc.assumeAlways(mkImp(x.curPC, mkCmp(">", v, intT64(int64(x.contract.Split.Hi)))))
						}
					} else if x.splitVal != nil {
						lit := x.th.Lit(big.NewInt(int64(*x.splitVal)), *l.MT)
						x.vc.assumeAlways(mkImp(x.curPC, mkEq(l.T, lit)))
						val = Leaf{T: lit, MT: l.MT}
					}
				}
			}
			// parameter spill: remember entry
			x.store(p, val)
		case slotPtr:
			x.storeSlot(p, val)
		default:
			panic(unsupported(fmt.Sprintf("store through %T", addr)))
		}
	case *ssa.UnOp:
		x.regs[i] = x.unop(i)
	case *ssa.BinOp:
		x.regs[i] = x.binop(i)
	case *ssa.Phi:
		vals := make([]Val, 0, len(i.Edges))
		var cs []T
		// edges correspond to block.Preds
		blk := i.Block()
		for k, p := range blk.Preds {
			if x.backEdge[[2]*ssa.BasicBlock{p, blk}] {
				panic(unsupported("phi on loop header"))
			}
			if _, ok := x.out[p]; !ok {
				continue
			}
			var ec T
			for si, s := range p.Succs {
				if s == blk {
					ec = x.edge[p][si]
				}
			}
			cs = append(cs, ec)
			saved := x.cur
			x.cur = x.out[p]
			vals = append(vals, x.get(i.Edges[k]))
			x.cur = saved
		}
		x.regs[i] = x.mergeVal(cs, vals, "phi")
	case *ssa.IndexAddr:
		x.regs[i] = x.indexAddr(i)
	case *ssa.FieldAddr:
		base := x.get(i.X)
		p, ok := base.(Ptr)
		if !ok {
			panic(unsupported(fmt.Sprintf("FieldAddr on %T", base)))
		}
		np := Ptr{Cell: p.Cell, Path: append(append([]PathElem{}, p.Path...), PathElem{Const: i.Field})}
		x.regs[i] = np
	case *ssa.Field:
		ag, ok := x.get(i.X).(Agg)
		if !ok {
			panic(unsupported("Field on non-aggregate"))
		}
		x.regs[i] = ag.Elems[i.Field]
	case *ssa.Index:
		x.regs[i] = x.index(i)
	case *ssa.Lookup:
		x.regs[i] = x.lookup(i)
	case *ssa.Extract:
		ag, ok := x.get(i.Tuple).(Agg)
		if !ok {
			panic(unsupported("Extract on non-tuple"))
		}
		x.regs[i] = ag.Elems[i.Index]
	case *ssa.Convert:
		x.regs[i] = x.convert(i)
	case *ssa.ChangeType:
		x.regs[i] = x.get(i.X)
	case *ssa.Call:
		x.regs[i] = x.call(i)
	case *ssa.MakeInterface:
		x.regs[i] = x.makeInterface(i)
	case *ssa.Slice:
		x.regs[i] = x.sliceOp(i)
	case *ssa.MakeSlice:
		x.regs[i] = x.makeSlice(i)
	case *ssa.TypeAssert:
		x.regs[i] = x.typeAssert(i)
	case *ssa.ChangeInterface:
		x.regs[i] = x.get(i.X)
	case *ssa.If:
		c := x.ev.boolOf(x.get(i.Cond))
		c = x.vc.define("cond", c)
		x.edge[x.curBlock] = []T{x.vc.define("e", mkAnd(x.curPC, c)), x.vc.define("e", mkAnd(x.curPC, mkNot(c)))}
	case *ssa.Jump:
		x.edge[x.curBlock] = []T{x.curPC}
	case *ssa.Return:
		x.doReturn(i)
	case *ssa.Panic:
		x.doPanic(i)
	default:
		panic(unsupported(fmt.Sprintf("instruction %T (%s) at %s", ins, ins, x.posString(ins.Pos()))))
	}
}

func (x *Exec) unop(i *ssa.UnOp) Val {
	switch i.Op {
	case token.MUL:
		addr := x.get(i.X)
		switch p := addr.(type) {
		case Ptr:
			return x.load(p)
		case slotPtr:
			return x.loadSlot(p)
		case Opaque:
			return x.freshVal("deref", i.Type())
		}
		panic(unsupported(fmt.Sprintf("load through %T", addr)))
	case token.NOT:
		return Leaf{T: mkNot(x.ev.boolOf(x.get(i.X)))}
	case token.SUB:
		l := x.leafOf(i.X)
		if l.MT == nil {
			return x.freshVal("fneg", i.Type())
		}
		return Leaf{T: x.th.Neg(x, l.T, *l.MT), MT: l.MT}
	case token.XOR:
		l := x.leafOf(i.X)
		return Leaf{T: x.vc.define("not", x.th.Not(x, l.T, *l.MT)), MT: l.MT}
	}
	panic(unsupported("unop " + i.Op.String()))
}

func (x *Exec) binop(i *ssa.BinOp) Val {
	a := x.get(i.X)
	b := x.get(i.Y)
	// strings
	if sa, ok := a.(*SliceV); ok {
		sb, ok2 := b.(*SliceV)
		if ok2 && (i.Op == token.EQL || i.Op == token.NEQ) {
			return x.stringEq(sa, sb, i.Op == token.NEQ)
		}
		if i.Op == token.ADD {
			// concatenation: a fresh string whose contents are not modelled (length unconstrained:
			// the only uses are messages)
			return x.freshSlice("concat", MT{8, false}, true)
		}
		panic(unsupported("string operator " + i.Op.String()))
	}
	if fa, ok := a.(FloatV); ok {
		fb, ok2 := b.(FloatV)
		if ok2 && fa.W == 64 && fb.W == 64 && (i.Op == token.EQL || i.Op == token.NEQ) {
			// IEEE equality: no NaN involved, and equal patterns or both zeros
			nan := func(f FloatV) T { return mkAnd(mkEq(f64exp(f.Bits), intT64(2047)), mkNot(mkEq(f64man(f.Bits), intT64(0)))) }
			zero := func(f FloatV) T { return mkOr(mkEq(f.Bits, intT64(0)), mkEq(f.Bits, intT(pow2(63)))) }
			eq := mkAnd(mkNot(nan(fa)), mkNot(nan(fb)), mkOr(mkEq(fa.Bits, fb.Bits), mkAnd(zero(fa), zero(fb))))
			if i.Op == token.NEQ {
				eq = mkNot(eq)
			}
			return Leaf{T: x.vc.define("feq", eq)}
		}
		// any other floating-point operation: unconstrained result
		return x.freshVal("fop", i.Type())
	}
	// pointer compared with nil: pointers handled by the generator are addresses of cells (parameters are
	// assumed non-nil, allocations are non-nil)
	isPtr := func(v Val) bool {
		switch v.(type) {
		case Ptr, PtrSet:
			return true
		}
		return false
	}
	isNilConst := func(v ssa.Value) bool {
		c, ok := v.(*ssa.Const)
		return ok && c.Value == nil
	}
	if (i.Op == token.EQL || i.Op == token.NEQ) && ((isPtr(a) && isNilConst(i.Y)) || (isPtr(b) && isNilConst(i.X))) {
		x.w.noteTrusted(x.name+" pointer parameter", "assumed non-nil")
		return Leaf{T: boolT(i.Op == token.NEQ)}
	}
	if oa, ok := a.(Opaque); ok {
		ob, ok2 := b.(Opaque)
		if ok2 && oa.Tag.S != "" && ob.Tag.S != "" && (i.Op == token.EQL || i.Op == token.NEQ) {
			t := mkEq(oa.Tag, ob.Tag)
			if i.Op == token.NEQ {
				t = mkNot(t)
			}
			return Leaf{T: t}
		}
		return x.freshVal("opq", i.Type())
	}
	if _, ok := a.(Agg); ok {
		if i.Op == token.EQL || i.Op == token.NEQ {
			t := x.ev.eqVals(a, b)
			if i.Op == token.NEQ {
				t = mkNot(t)
			}
			return Leaf{T: t}
		}
	}
	la, ok1 := a.(Leaf)
	lb, ok2 := b.(Leaf)
	if !ok1 || !ok2 {
		panic(unsupported(fmt.Sprintf("binop %s on %T, %T", i.Op, a, b)))
	}
	if la.MT == nil {
		// booleans
		switch i.Op {
		case token.EQL:
			return Leaf{T: mkEq(la.T, lb.T)}
		case token.NEQ:
			return Leaf{T: mkNot(mkEq(la.T, lb.T))}
		case token.AND, token.LAND:
			return Leaf{T: mkAnd(la.T, lb.T)}
		case token.OR, token.LOR:
			return Leaf{T: mkOr(la.T, lb.T)}
		}
		panic(unsupported("bool binop " + i.Op.String()))
	}
	mt := *la.MT
	switch i.Op {
	case token.EQL, token.NEQ, token.LSS, token.LEQ, token.GTR, token.GEQ:
		return Leaf{T: x.th.Cmp(i.Op, la.T, lb.T, mt)}
	case token.SHL, token.SHR:
		cm := MT{64, false}
		if lb.MT != nil {
			cm = *lb.MT
		}
		return Leaf{T: x.th.Shift(x, i.Op, la.T, mt, lb.T, cm), MT: la.MT}
	}
	r := x.th.Bin(x, i.Op, la.T, lb.T, mt)
	if x.th.Mode() == "bv" {
		r = x.vc.define("b", r)
	}
	return Leaf{T: r, MT: la.MT}
}

func (x *Exec) convert(i *ssa.Convert) Val {
	v := x.get(i.X)
	from, okf := machineType(i.X.Type())
	to, okt := machineType(i.Type())
	if okf && okt {
		l := v.(Leaf)
		m := to
		return Leaf{T: x.th.Conv(x, l.T, from, to), MT: &m}
	}
	// string <-> []byte
	if s, ok := v.(*SliceV); ok {
		if isStringType(i.Type()) || isByteSlice(i.Type()) {
			return x.copySlice(s, isStringType(i.Type()))
		}
	}
	// float32 -> float64 is exact: the class (NaN, infinity, zero) and the sign are preserved; the
	// pattern itself is not modelled
	if f, ok := v.(FloatV); ok && f.W == 32 && floatWidth(i.Type()) == 64 {
		r := x.freshFloat("widen", 64)
		e32 := T{S: fmt.Sprintf("(mod (div %s 8388608) 256)", f.Bits.S), Sort: sortInt}
		m32 := T{S: fmt.Sprintf("(mod %s 8388608)", f.Bits.S), Sort: sortInt}
		x.vc.assume(mkAnd(
			mkEq(mkEq(e32, intT64(255)), mkEq(f64exp(r.Bits), intT64(2047))),
			mkImp(mkEq(e32, intT64(255)), mkEq(mkEq(m32, intT64(0)), mkEq(f64man(r.Bits), intT64(0)))),
			mkEq(mkCmp(">=", f.Bits, intT(pow2(31))), f64neg(r.Bits)),
			mkEq(mkAnd(mkEq(e32, intT64(0)), mkEq(m32, intT64(0))), mkAnd(mkEq(f64exp(r.Bits), intT64(0)), mkEq(f64man(r.Bits), intT64(0))))))
		return r
	}
	// other float conversions etc.
	return x.freshVal("conv", i.Type())
}

func isByteSlice(t types.Type) bool {
	s, ok := t.Underlying().(*types.Slice)
	if !ok {
		return false
	}
	mt, ok := machineType(s.Elem())
	return ok && mt.W == 8 && !mt.Signed
}

func (x *Exec) boundsOblige(idx T, idxMT *MT, n T) {
	// 0 <= idx < n
	var lo T
	if idxMT != nil && !idxMT.Signed {
		lo = tTrue
	} else {
		lo = x.th.SpecCmp(">=", idx, x.th.SpecLit(big.NewInt(0)))
		if idx.Sort.K == SInt {
			lo = mkCmp(">=", idx, intT64(0))
		}
	}
	var hi T
	if idx.Sort.K == SInt {
		hi = mkCmp("<", idx, n)
	} else {
		hi = x.th.SpecCmp("<", idx, n)
	}
	x.sideOblige("bounds", mkAnd(lo, hi))
}

func (x *Exec) indexAddr(i *ssa.IndexAddr) Val {
	base := x.get(i.X)
	idxL := x.leafOf(i.Index)
	idx := x.ev.specOf(idxL)
	switch p := base.(type) {
	case Ptr:
		// pointer to array
		arr := i.X.Type().Underlying().(*types.Pointer).Elem().Underlying().(*types.Array)
		n := int(arr.Len())
		if idx.C != nil {
			k := int(idx.C.Int64())
			if x.th.Mode() == "bv" {
				k = int(MT{64, true}.Wrap(idx.C).Int64())
			}
			if k < 0 || k >= n {
				x.sideOblige("bounds", tFalse)
				k = 0
			}
			return Ptr{Cell: p.Cell, Path: append(append([]PathElem{}, p.Path...), PathElem{Const: k, N: n})}
		}
		x.boundsOblige(idx, idxL.MT, x.th.SpecLit(big.NewInt(int64(n))))
		sym := x.vc.define("idx", idx)
		return Ptr{Cell: p.Cell, Path: append(append([]PathElem{}, p.Path...), PathElem{Sym: &sym, N: n})}
	case *SliceV:
		x.boundsOblige(idx, idxL.MT, p.Len)
		return slotPtr{S: p, Idx: x.vc.define("sidx", mkAdd(p.Off, idx))}
	}
	panic(unsupported(fmt.Sprintf("IndexAddr on %T", base)))
}

// slotPtr is the address of a slice element.
type slotPtr struct {
	S   *SliceV
	Idx T
}

func (x *Exec) elemLeaf(arr T, idx T, mt MT) Val {
	t := x.vc.define("el", T{S: fmt.Sprintf("(select %s %s)", arr.S, idx.S), Sort: sortInt})
	x.vc.assume(inRange(t, mt))
	m := mt
	return Leaf{T: t, MT: &m}
}

func (x *Exec) loadSlot(p slotPtr) Val {
	arr := p.S.Arr
	if p.S.Back != nil {
		arr = x.cur.mem[p.S.Back].(Leaf).T
	}
	return x.elemLeaf(arr, p.Idx, p.S.Elem)
}

func (x *Exec) storeSlot(p slotPtr, v Val) {
	if p.S.Back == nil {
		panic(unsupported("store into string"))
	}
	arr := x.cur.mem[p.S.Back].(Leaf).T
	l := v.(Leaf)
	na := x.vc.define("arr", T{S: fmt.Sprintf("(store %s %s %s)", arr.S, p.Idx.S, l.T.S), Sort: sortArr})
	x.cur.mem[p.S.Back] = Leaf{T: na}
}

func (x *Exec) index(i *ssa.Index) Val {
	base := x.get(i.X)
	idxL := x.leafOf(i.Index)
	idx := x.ev.specOf(idxL)
	switch b := base.(type) {
	case Agg:
		if idx.C != nil {
			k := int(idx.C.Int64())
			if k < 0 || k >= len(b.Elems) {
				x.sideOblige("bounds", tFalse)
				k = 0
			}
			return b.Elems[k]
		}
		x.boundsOblige(idx, idxL.MT, x.th.SpecLit(big.NewInt(int64(len(b.Elems)))))
		sym := x.vc.define("idx", idx)
		return x.defineVal("ix", x.readPath(b, []PathElem{{Sym: &sym}}))
	case *SliceV:
		x.boundsOblige(idx, idxL.MT, b.Len)
		return x.loadSlot(slotPtr{S: b, Idx: mkAdd(b.Off, idx)})
	}
	panic(unsupported(fmt.Sprintf("Index on %T", base)))
}

func (x *Exec) lookup(i *ssa.Lookup) Val {
	base := x.get(i.X)
	if s, ok := base.(*SliceV); ok {
		idxL := x.leafOf(i.Index)
		idx := x.ev.specOf(idxL)
		x.boundsOblige(idx, idxL.MT, s.Len)
		return x.loadSlot(slotPtr{S: s, Idx: mkAdd(s.Off, idx)})
	}
	panic(unsupported("map lookup"))
}

func (x *Exec) doReturn(r *ssa.Return) {
	x.retCount++
	if x.contract == nil {
		return
	}
	env := x.entryEnv()
	// deref in ensures reads current memory; old(*p) reads entry memory (handled by evaluator)
	results := make([]Val, len(r.Results))
	for k, rv := range r.Results {
		results[k] = x.get(rv)
	}
	names := x.contract.Returns
	sigRes := x.fn.Signature.Results()
	for k := range results {
		if k < len(names) && names[k] != "" && names[k] != "_" {
			env.vars[names[k]] = results[k]
		} else if k < sigRes.Len() && sigRes.At(k).Name() != "" && sigRes.At(k).Name() != "_" {
			env.vars[sigRes.At(k).Name()] = results[k]
		}
		env.vars[fmt.Sprintf("$%d", k+1)] = results[k]
	}
	if len(results) == 1 {
		env.vars["result"] = results[0]
	}
	for n, v := range x.callRes {
		env.vars[n] = v
	}
	pos := r.Pos()
	site := fmt.Sprintf("ret@+%d.%d", x.relLine(pos), x.retCount)
	var resLeaves []ReplayLeaf
	resOK := true
	for k := range results {
		if !replayLeaves(results[k], sigRes.At(k).Type(), fmt.Sprintf("r%d", k), &resLeaves) {
			resOK = false
		}
	}
	for k, c := range x.contract.Ensures {
		t := x.evalBool(c, env)
		o := x.oblige(fmt.Sprintf("ensures/%d/%s", k+1, site), "ensures", x.curPC, t, c.Text, pos)
		if resOK {
			o.ResultLeaves = resLeaves
			o.Params = x.vc.Params
		}
	}
	if x.contract.HasPanics {
		t := x.evalBool(x.contract.Panics, env)
		x.oblige(fmt.Sprintf("nopanic/%s", site), "panics-iff", x.curPC, mkNot(t), "normal return implies not panics-condition: "+x.contract.Panics.Text, pos)
	}
	// a contract whose scope ends at a limit says nothing about inputs that go beyond it; a return that
	// is reached inside the scope must therefore be one the contract speaks about: the guard of at
	// least one postcondition holds (otherwise a shortcut taken for the wrong inputs would go unnoticed)
	if len(x.contract.Limits) > 0 && len(x.contract.Ensures) > 0 {
		var guards []T
		for _, c := range x.contract.Ensures {
			if b, ok := c.E.(*EBin); ok && b.Op == "==>" {
				g, err := x.tryEvalBool(&Clause{Text: c.Text, E: b.L, Line: c.Line}, env)
				if err != nil {
					guards = []T{tTrue}
					break
				}
				guards = append(guards, g)
			} else {
				guards = []T{tTrue}
				break
			}
		}
		x.oblige(fmt.Sprintf("return-covered/%s", site), "ensures", x.curPC, mkOr(guards...), "a return inside the contract's scope satisfies the guard of some postcondition", pos)
	}
	// cover: this return is reachable
	if !x.waived("cover", pos) {
		o := x.oblige("cover/"+site, "cover-return", x.curPC, tFalse, "return reachable", pos)
		o.MustFail = true
	}
}

func (x *Exec) waived(kind string, pos token.Pos) bool {
	if x.contract == nil {
		return false
	}
	text := x.lineText(pos)
	for _, wv := range x.contract.Waivers {
		if wv.Kind == kind && (wv.Text == "" || strings.Contains(text, wv.Text)) {
			x.usedWaivers[wv] = true
			return true
		}
	}
	return false
}

func (x *Exec) doPanic(p *ssa.Panic) {
	pos := p.Pos()
	goal := tFalse
	note := "explicit panic must be unreachable (no panics clause)"
	if x.contract != nil && x.contract.HasPanics {
		goal = x.evalBool(x.contract.Panics, x.entryEnv())
		note = "panic only if: " + x.contract.Panics.Text
	}
	key := fmt.Sprintf("panic@+%d", x.relLine(pos))
	x.kindCount[key]++
	x.oblige(fmt.Sprintf("safety/%s.%d", key, x.kindCount[key]), "panic", x.curPC, goal, note, pos)
}

func (x *Exec) makeInterface(i *ssa.MakeInterface) Val {
	// tag by dynamic type name
	tn := i.X.Type().String()
	tag := x.w.typeTag(tn)
	return Opaque{Desc: "iface " + tn, Tag: intT64(int64(tag))}
}

func (x *Exec) typeAssert(i *ssa.TypeAssert) Val {
	v := x.get(i.X)
	o, _ := v.(Opaque)
	if i.CommaOk {
		okb := x.vc.fresh("taok", sortBool)
		if o.Tag.S != "" {
			if _, isIface := i.AssertedType.Underlying().(*types.Interface); !isIface {
				x.vc.assume(mkEq(okb, mkEq(o.Tag, intT64(int64(x.w.typeTag(i.AssertedType.String()))))))
			}
		}
		return Agg{Elems: []Val{x.freshVal("ta", i.AssertedType), Leaf{T: okb}}}
	}
	x.sideOblige("typeassert", tFalse)
	return x.freshVal("ta", i.AssertedType)
}

// replayLeaves flattens a value into scalars with their Go basic types (for the replay harness).
func replayLeaves(v Val, t types.Type, path string, out *[]ReplayLeaf) bool {
	switch y := v.(type) {
	case Leaf:
		b, ok := t.Underlying().(*types.Basic)
		if !ok {
			return false
		}
		*out = append(*out, ReplayLeaf{Term: y.T.S, Path: path, Type: b.Name()})
		return true
	case Agg:
		switch u := t.Underlying().(type) {
		case *types.Array:
			for i, e := range y.Elems {
				if !replayLeaves(e, u.Elem(), fmt.Sprintf("%s[%d]", path, i), out) {
					return false
				}
			}
			return true
		case *types.Struct:
			for i, e := range y.Elems {
				if !replayLeaves(e, u.Field(i).Type(), path+"."+u.Field(i).Name(), out) {
					return false
				}
			}
			return true
		}
	}
	return false
}

// mergeSource returns the contents of a backing-store cell in the i-th state being merged.
func (x *Exec) mergeSource(i int, c *Cell) (T, bool) {
	if i < len(x.mergeStates) {
		if v, ok := x.mergeStates[i].mem[c]; ok {
			if l, ok := v.(Leaf); ok {
				return l.T, true
			}
		}
	}
	if v, ok := x.cur.mem[c]; ok {
		if l, ok := v.(Leaf); ok {
			return l.T, true
		}
	}
	return T{}, false
}

// paramTypes gives the static types of a function's parameters (receiver included) by name.
func paramTypes(fn *ssa.Function) func(string) types.Type {
	return func(name string) types.Type {
		for _, p := range fn.Params {
			if p.Name() == name {
				return p.Type()
			}
		}
		return nil
	}
}
