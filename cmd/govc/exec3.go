package main

import (
	"os"
	"fmt"
	"go/ast"
	"go/constant"
	"go/token"
	"go/types"
	"math/big"
	"sort"

	"golang.org/x/tools/go/ssa"
)

func (x *Exec) callOrdinal(i *ssa.Call, key string) int {
	// ordinal of this call among calls to the same callee, in source order
	var poss []token.Pos
	for _, b := range x.fn.Blocks {
		for _, ins := range b.Instrs {
			if c, ok := ins.(*ssa.Call); ok {
				if f := c.Call.StaticCallee(); f != nil && funcKey(f) == key {
					poss = append(poss, c.Pos())
				}
			}
		}
	}
	sort.Slice(poss, func(a, b int) bool { return poss[a] < poss[b] })
	for k, p := range poss {
		if p == i.Pos() {
			return k + 1
		}
	}
	return 0
}

func (x *Exec) havocArgs(args []ssa.Value, vals []Val) {
	for k, a := range args {
		switch v := vals[k].(type) {
		case Ptr:
			if cur, ok := x.cur.mem[v.Cell]; ok {
				x.store(v, x.havocLike(x.readPath(cur, v.Path), "hv_"+v.Cell.Name))
			}
		case *SliceV:
			if v.Back != nil && !v.IsString {
				if _, ok := x.cur.mem[v.Back]; ok {
					x.cur.mem[v.Back] = Leaf{T: x.vc.fresh("hv_arr", sortArr)}
				}
			}
		}
		_ = a
	}
}

func (x *Exec) call(i *ssa.Call) Val {
	com := i.Call
	resT := i.Type()
	if com.IsInvoke() {
		vals := make([]Val, len(com.Args))
		for k, a := range com.Args {
			vals[k] = x.get(a)
		}
		if v, ok := x.fmtState(i, vals); ok {
			return v
		}
		x.havocArgs(com.Args, vals)
		x.warn("interface method call %s havocked", com.Method.Name())
		return x.freshVal("inv_"+com.Method.Name(), resT)
	}
	switch callee := com.Value.(type) {
	case *ssa.Builtin:
		return x.builtin(i, callee)
	case *ssa.Function:
		return x.staticCall(i, callee)
	}
	vals := make([]Val, len(com.Args))
	for k, a := range com.Args {
		vals[k] = x.get(a)
	}
	x.havocArgs(com.Args, vals)
	x.warn("dynamic call havocked at %s", x.posString(i.Pos()))
	return x.freshVal("dyn", resT)
}

func (x *Exec) builtin(i *ssa.Call, b *ssa.Builtin) Val {
	args := i.Call.Args
	switch b.Name() {
	case "ssa:deferstack":
		return Opaque{Desc: "deferstack"}
	case "len":
		switch v := x.get(args[0]).(type) {
		case *SliceV:
			mt := MT{64, true}
			return Leaf{T: v.Len, MT: &mt}
		case Agg:
			mt := MT{64, true}
			return Leaf{T: x.th.Lit(big.NewInt(int64(len(v.Elems))), mt), MT: &mt}
		case Ptr:
			// pointer to array
			if arr, ok := args[0].Type().Underlying().(*types.Pointer).Elem().Underlying().(*types.Array); ok {
				mt := MT{64, true}
				return Leaf{T: x.th.Lit(big.NewInt(arr.Len()), mt), MT: &mt}
			}
		}
	case "cap":
		if v, ok := x.get(args[0]).(*SliceV); ok {
			mt := MT{64, true}
			return Leaf{T: v.Cap, MT: &mt}
		}
	case "append":
		return x.appendOp(i)
	case "SliceData":
		// unsafe.SliceData(s): the pointer keeps the slice it came from
		return x.get(args[0])
	case "String":
		// unsafe.String(unsafe.SliceData(s), n): a string over the current contents of s
		if v, ok := x.get(args[0]).(*SliceV); ok && x.th.Mode() == "int" {
			n := x.ev.specOf(x.leafOf(args[1]))
			return &SliceV{Arr: x.sliceArr(v), Off: v.Off, Len: n, Cap: n, Elem: MT{8, false}, IsString: true}
		}
	case "copy":
		return x.copyOp(i)
	case "min", "max":
		a := x.leafOf(args[0])
		bb := x.leafOf(args[1])
		op := token.LSS
		if b.Name() == "max" {
			op = token.GTR
		}
		return Leaf{T: x.vc.define(b.Name(), mkIte(x.th.Cmp(op, a.T, bb.T, *a.MT), a.T, bb.T)), MT: a.MT}
	}
	panic(unsupported("builtin " + b.Name()))
}

func (x *Exec) staticCall(i *ssa.Call, callee *ssa.Function) Val {
	com := i.Call
	resT := i.Type()
	vals := make([]Val, len(com.Args))
	for k, a := range com.Args {
		vals[k] = x.get(a)
	}
	pkgPath := ""
	if callee.Pkg != nil {
		pkgPath = callee.Pkg.Pkg.Path()
	} else if callee.Origin() != nil && callee.Origin().Pkg != nil {
		pkgPath = callee.Origin().Pkg.Pkg.Path()
	}
	if pkgPath == "math/bits" {
		leaf := func(k int) T { return vals[k].(Leaf).T }
		wrap2 := func(a, b T) Val {
			return Agg{Elems: []Val{Leaf{T: a, MT: &u64}, Leaf{T: b, MT: &u64}}}
		}
		imt := MT{64, true}
		switch callee.Name() {
		case "Add64":
			a, b := x.th.Add64(x, leaf(0), leaf(1), leaf(2))
			return wrap2(a, b)
		case "Sub64":
			a, b := x.th.Sub64(x, leaf(0), leaf(1), leaf(2))
			return wrap2(a, b)
		case "Mul64":
			a, b := x.th.Mul64(x, leaf(0), leaf(1))
			return wrap2(a, b)
		case "Div64":
			a, b := x.th.Div64(x, leaf(0), leaf(1), leaf(2))
			return wrap2(a, b)
		case "Len64":
			return Leaf{T: x.th.Len64(x, leaf(0)), MT: &imt}
		case "LeadingZeros64":
			n := x.th.Len64(x, leaf(0))
			if x.th.Mode() == "bv" {
				return Leaf{T: T{S: fmt.Sprintf("(bvsub (_ bv64 64) %s)", n.S), Sort: sortBV(64)}, MT: &imt}
			}
			return Leaf{T: x.vc.define("lz", mkSub(intT64(64), n)), MT: &imt}
		case "TrailingZeros64":
			return Leaf{T: x.th.TrailingZeros64(x, leaf(0)), MT: &imt}
		}
		panic(unsupported("math/bits." + callee.Name()))
	}
	if callee.Pkg == x.w.pkg || (callee.Origin() != nil && callee.Origin().Pkg == x.w.pkg) {
		key := funcKey(callee)
		if cc := x.w.contracts.Funcs[key]; cc != nil {
			return x.contractCall(i, callee, cc, vals)
		}
		x.warn("call to %s has no contract: results havocked", key)
		x.havocArgs(com.Args, vals)
		return x.freshVal("nc_"+callee.Name(), resT)
	}
	if pkgPath == "math" && x.th.Mode() == "int" {
		if v, ok := x.floatMathCall(callee, vals); ok {
			x.w.noteTrusted("math."+callee.Name(), "IEEE 754 classification of the bit pattern (package documentation)")
			return v
		}
	}
	if pkgPath == "math/big" && x.th.Mode() == "int" {
		if v, ok := x.bigCall(i, callee, vals); ok {
			return v
		}
		x.warn("math/big.%s is not modelled here: result and arguments havocked", callee.Name())
		if os.Getenv("GOVC_DEBUG") != "" {
			fmt.Fprintf(os.Stderr, "bigmodel: %s not modelled (%T...)\n", callee.Name(), vals[0])
		}
	}
	// external
	x.havocArgs(com.Args, vals)
	full := pkgPath + "." + callee.Name()
	if full == "errors.New" || full == "fmt.Errorf" {
		x.w.noteTrusted(full, "assumed to return a non-nil error (package documentation)")
		tag := x.vc.fresh("errtag", sortInt)
		x.vc.assume(mkCmp(">=", tag, intT64(1000)))
		return Opaque{Desc: "error from " + full, Tag: tag}
	}
	x.w.noteExternal(full)
	return x.freshVal("ext_"+callee.Name(), resT)
}

func (x *Exec) contractCall(i *ssa.Call, callee *ssa.Function, cc *Contract, vals []Val) Val {
	key := funcKey(callee)
	ord := x.callOrdinal(i, key)
	pos := i.Pos()
	callerEnv := x.envAt(pos)
	if x.contract != nil {
		for n, ca := range x.contract.CallArgs {
			if ca.Callee != key || ca.Ordinal != ord {
				continue
			}
			ae := callerEnv
			for k, p := range callee.Params {
				ae = ae.bind("arg_"+p.Name(), vals[k])
			}
			x.callArgsDone[ca] = true
			x.oblige(fmt.Sprintf("callarg/%s#%d/%d", key, ord, n+1), "callarg", x.curPC, x.evalBool(ca.Clause, ae), ca.Clause.Text, pos)
		}
	}
	env := &Env{vars: map[string]Val{}}
	for k, p := range callee.Params {
		env.vars[p.Name()] = vals[k]
	}
	env.lookupType = paramTypes(callee)
	// logical variables of the callee
	for _, lv := range cc.Logical {
		var bound Val
		for _, h := range x.contractCallHints() {
			if h.Callee == key && (h.Ordinal == 0 || h.Ordinal == ord) {
				if c, ok := h.Binds[lv.Name]; ok {
					bound = x.evalIn(c, callerEnv)
				}
			}
		}
		if bound == nil {
			if v, ok := x.logical[lv.Name]; ok {
				bound = v
			}
		}
		if bound == nil {
			var s Sort
			switch lv.Sort {
			case "int":
				s = x.th.SpecSort()
			case "real":
				s = sortReal
			default:
				s = sortBool
			}
			bound = Leaf{T: x.vc.fresh("unbound_"+lv.Name, s)}
			x.warn("call %s#%d: logical %s unbound", key, ord, lv.Name)
		}
		if l, ok := bound.(Leaf); ok && lv.Sort == "real" {
			l.T = realOfInt(l.T)
			bound = l
		}
		env.vars[lv.Name] = bound
	}
	env.lookupCur = func(name string) (Val, bool) {
		if name == "DefaultRoundingMode" {
			return x.globalInput(name), true
		}
		return nil, false
	}
	env.lookupOld = func(name string) (Val, bool) {
		v, ok := env.vars[name]
		return v, ok
	}
	// preconditions
	pre := x.cur.clone()
	saveOld := x.oldMem
	x.oldMem = pre
	// "waive call-requires at <text>": the call is made outside the callee's contract on purpose (its
	// result is not used on those paths); the postconditions are then assumed only under the preconditions
	outside := x.waived("call-requires", pos)
	preT := tTrue
	for k, r := range cc.Requires {
		t := x.evalBool(r, env)
		if outside {
			preT = mkAnd(preT, t)
			continue
		}
		x.oblige(fmt.Sprintf("call/%s#%d/requires/%d", key, ord, k+1), "call-requires", x.curPC, t, r.Text, pos)
	}
	// frame: a callee writes only through the parameters listed for it in frameAllowed (that is what
	// the frame analysis of the C20 check establishes for every function of the package, including
	// writes made by passing the parameter on to another function); exactly those are havocked here
	written := map[string]bool{}
	fk := key
	if callee.Parent() != nil {
		fk = funcKey(callee.Parent())
	}
	for _, a := range frameAllowed[fk] {
		written[a] = true
	}
	for k, p := range callee.Params {
		if !written[p.Name()] {
			continue
		}
		switch v := vals[k].(type) {
		case Ptr:
			if cur, ok := x.cur.mem[v.Cell]; ok {
				x.store(v, x.havocLike(x.readPath(cur, v.Path), "post_"+p.Name()))
			}
		case *SliceV:
			if v.Back != nil {
				x.cur.mem[v.Back] = Leaf{T: x.vc.fresh("post_"+p.Name()+"_arr", sortArr)}
			}
		}
	}
	res := x.freshVal("r_"+callee.Name(), i.Type())
	var results []Val
	if _, isTuple := i.Type().(*types.Tuple); isTuple {
		results = res.(Agg).Elems
	} else if callee.Signature.Results().Len() == 1 {
		results = []Val{res}
	}
	sigRes := callee.Signature.Results()
	for k := range results {
		if k < len(cc.Returns) && cc.Returns[k] != "" && cc.Returns[k] != "_" {
			env.vars[cc.Returns[k]] = results[k]
		} else if sigRes.At(k).Name() != "" && sigRes.At(k).Name() != "_" {
			env.vars[sigRes.At(k).Name()] = results[k]
		}
		env.vars[fmt.Sprintf("$%d", k+1)] = results[k]
	}
	if len(results) == 1 {
		env.vars["result"] = results[0]
	}
	if outside {
		// the postconditions are available only where the preconditions happen to hold
		preT = x.vc.define("callpre", preT)
	}
	for _, e := range cc.Ensures {
		t, err := x.tryEvalBool(e, env)
		if err != nil {
			x.warn("call %s#%d: ensures %q not usable here: %v", key, ord, e.Text, err)
			continue
		}
		if outside {
			t = mkImp(preT, t)
		}
		x.vc.assume(mkImp(x.curPC, t))
	}
	if cc.HasPanics {
		// the callee may panic: the caller must show it does not (or declare it)
		t := x.evalBool(cc.Panics, env)
		x.sideOblige("callee-panic", mkNot(t))
	}
	x.oldMem = saveOld
	if cc.Trusted != "" {
		x.w.noteTrusted(key, cc.Trusted)
	}
	x.callRes[fmt.Sprintf("callres_%s_%d", callee.Name(), ord)] = res
	return res
}

func (x *Exec) contractCallHints() []*CallHint {
	if x.contract == nil {
		return nil
	}
	return x.contract.Calls
}

func (x *Exec) evalIn(c *Clause, env *Env) (v Val) {
	defer func() {
		if r := recover(); r != nil {
			if ee, ok := r.(evalErr); ok {
				panic(unsupported(fmt.Sprintf("contract line %d: %s: %s", c.Line, c.Text, string(ee))))
			}
			panic(r)
		}
	}()
	return x.ev.Eval(c.E, env)
}

func (x *Exec) tryEvalBool(c *Clause, env *Env) (t T, err error) {
	defer func() {
		if r := recover(); r != nil {
			if ee, ok := r.(evalErr); ok {
				err = fmt.Errorf("%s", string(ee))
				return
			}
			panic(r)
		}
	}()
	return x.ev.boolOf(x.ev.Eval(c.E, env)), nil
}

// ---------------------------------------------------------------- globals

func (x *Exec) globalPtr(g *ssa.Global) Val {
	if c, ok := x.globals[g]; ok {
		return Ptr{Cell: c}
	}
	x.ncell++
	t := g.Type().Underlying().(*types.Pointer).Elem()
	c := &Cell{Name: "global_" + g.Name(), Typ: t, ID: x.ncell}
	x.globals[g] = c
	var v Val
	if g.Name() == "DefaultRoundingMode" {
		v = x.globalInput(g.Name())
	} else if cv, ok := x.w.globalConst(g); ok {
		v = x.constTree(cv, t)
	} else {
		v = x.freshVal("glob_"+g.Name(), t)
		x.warn("global %s treated as unknown", g.Name())
	}
	x.cur.mem[c] = v
	// globals are visible in every state created from now on; also patch entry memory
	x.entryMem.mem[c] = v
	for _, st := range x.out {
		if _, ok := st.mem[c]; !ok {
			st.mem[c] = v
		}
	}
	return Ptr{Cell: c}
}

// constTree converts a constant tree (from the initialiser) to a Val.
type constNode struct {
	Val  constant.Value
	Kids []*constNode
	Str  *string
}

func (x *Exec) constTree(n *constNode, t types.Type) Val {
	if mt, ok := machineType(t); ok {
		m := mt
		v, ok := constant.Val(constant.ToInt(n.Val)).(*big.Int)
		if !ok {
			v = big.NewInt(constant.Val(constant.ToInt(n.Val)).(int64))
		}
		return Leaf{T: x.th.Lit(v, mt), MT: &m}
	}
	switch u := t.Underlying().(type) {
	case *types.Array:
		el := make([]Val, u.Len())
		for i := range el {
			if i < len(n.Kids) && n.Kids[i] != nil {
				el[i] = x.constTree(n.Kids[i], u.Elem())
			} else {
				el[i] = x.zeroVal(u.Elem())
			}
		}
		return Agg{Elems: el}
	case *types.Struct:
		el := make([]Val, u.NumFields())
		for i := range el {
			if i < len(n.Kids) && n.Kids[i] != nil {
				el[i] = x.constTree(n.Kids[i], u.Field(i).Type())
			} else {
				el[i] = x.zeroVal(u.Field(i).Type())
			}
		}
		return Agg{Elems: el}
	case *types.Slice:
		if n.Str != nil {
			s := x.constString(*n.Str)
			s.IsString = true // immutable: the frame check guarantees nobody writes package-level byte slices
			return s
		}
		if mt, ok := machineType(u.Elem()); ok && mt.W == 8 && n.Kids != nil {
			// []byte{c0, c1, ...} with constant elements: the same as a string constant
			bs := make([]byte, len(n.Kids))
			okAll := true
			for i, k := range n.Kids {
				if k == nil || k.Val == nil {
					okAll = false
					break
				}
				v, exact := constant.Int64Val(constant.ToInt(k.Val))
				if !exact || v < 0 || v > 255 {
					okAll = false
					break
				}
				bs[i] = byte(v)
			}
			if okAll {
				s := x.constString(string(bs))
				s.IsString = true
				return s
			}
		}
	}
	panic(unsupported("global initialiser of type " + t.String()))
}

func (w *World) globalConst(g *ssa.Global) (*constNode, bool) {
	obj, ok := g.Object().(*types.Var)
	if !ok {
		return nil, false
	}
	for _, f := range w.files {
		for _, d := range f.Decls {
			gd, ok := d.(*ast.GenDecl)
			if !ok || gd.Tok != token.VAR {
				continue
			}
			for _, sp := range gd.Specs {
				vs := sp.(*ast.ValueSpec)
				for k, nm := range vs.Names {
					if w.info.Defs[nm] == obj && k < len(vs.Values) {
						n, ok := w.constExpr(vs.Values[k])
						return n, ok
					}
				}
			}
		}
	}
	return nil, false
}

func (w *World) constExpr(e ast.Expr) (*constNode, bool) {
	if tv, ok := w.info.Types[e]; ok && tv.Value != nil {
		return &constNode{Val: tv.Value}, true
	}
	switch c := e.(type) {
	case *ast.CompositeLit:
		n := &constNode{}
		idx := 0
		for _, el := range c.Elts {
			if kv, ok := el.(*ast.KeyValueExpr); ok {
				if tv, ok := w.info.Types[kv.Key]; ok && tv.Value != nil {
					i64, _ := constant.Int64Val(constant.ToInt(tv.Value))
					idx = int(i64)
				} else if id, ok := kv.Key.(*ast.Ident); ok {
					// struct field
					st, ok := w.info.Types[c].Type.Underlying().(*types.Struct)
					if !ok {
						return nil, false
					}
					for fi := 0; fi < st.NumFields(); fi++ {
						if st.Field(fi).Name() == id.Name {
							idx = fi
						}
					}
				}
				el = kv.Value
			}
			k, ok := w.constExpr(el)
			if !ok {
				return nil, false
			}
			for len(n.Kids) <= idx {
				n.Kids = append(n.Kids, nil)
			}
			n.Kids[idx] = k
			idx++
		}
		return n, true
	case *ast.CallExpr:
		// []byte("...") conversions
		if len(c.Args) == 1 {
			if tv, ok := w.info.Types[c.Args[0]]; ok && tv.Value != nil && tv.Value.Kind() == constant.String {
				s := constant.StringVal(tv.Value)
				return &constNode{Str: &s}, true
			}
		}
	case *ast.ParenExpr:
		return w.constExpr(c.X)
	}
	return nil, false
}

// ---------------------------------------------------------------- slices and strings

func (x *Exec) sliceArr(s *SliceV) T {
	if s.Back != nil {
		return x.cur.mem[s.Back].(Leaf).T
	}
	return s.Arr
}

func (x *Exec) sliceOp(i *ssa.Slice) Val {
	base := x.get(i.X)
	var lo, hi T
	one := func(v ssa.Value, def T) T {
		if v == nil {
			return def
		}
		return x.ev.specOf(x.leafOf(v))
	}
	switch b := base.(type) {
	case *SliceV:
		lo = one(i.Low, intT64(0))
		hi = one(i.High, b.Len)
		limit := b.Cap
		if b.IsString {
			limit = b.Len
		}
		x.sideOblige("slicebounds", mkAnd(mkCmp("<=", intT64(0), lo), mkCmp("<=", lo, hi), mkCmp("<=", hi, limit)))
		s := *b
		s.Off = x.vc.define("soff", mkAdd(b.Off, lo))
		s.Len = x.vc.define("slen", mkSub(hi, lo))
		s.Cap = x.vc.define("scap", mkSub(b.Cap, lo))
		if i.Max != nil {
			mx := one(i.Max, b.Cap)
			x.sideOblige("slicebounds", mkAnd(mkCmp("<=", hi, mx), mkCmp("<=", mx, b.Cap)))
			s.Cap = x.vc.define("scap", mkSub(mx, lo))
		}
		return &s
	case Ptr:
		// slicing a local array: the array cell becomes a backing store view.
		arrT, ok := i.X.Type().Underlying().(*types.Pointer).Elem().Underlying().(*types.Array)
		if !ok {
			break
		}
		mt, ok := machineType(arrT.Elem())
		if !ok && len(b.Path) == 0 {
			// array of non-scalar elements (the argument list of a variadic call): contents are not modelled
			return Opaque{Desc: "slice of " + arrT.String()}
		}
		if ok && len(b.Path) != 0 {
			// an array field inside a larger variable: a read-only snapshot of its current elements
			// (enough for append/copy sources; a write through such a slice is not supported)
			ag, isAgg := x.ev.deref(b, false).(Agg)
			if !isAgg || int64(len(ag.Elems)) != arrT.Len() {
				break
			}
			arr := T{S: "emptyArr", Sort: sortArr}
			for k, e := range ag.Elems {
				l, isLeaf := e.(Leaf)
				if !isLeaf {
					panic(unsupported("slice of a non-scalar array field"))
				}
				arr = T{S: fmt.Sprintf("(store %s %d %s)", arr.S, k, x.ev.specOf(l).S), Sort: sortArr}
			}
			snap := x.vc.define("snap", arr)
			n := arrT.Len()
			lo = one(i.Low, intT64(0))
			hi = one(i.High, intT64(n))
			x.sideOblige("slicebounds", mkAnd(mkCmp("<=", intT64(0), lo), mkCmp("<=", lo, hi), mkCmp("<=", hi, intT64(n))))
			return &SliceV{Arr: snap, Off: x.vc.define("soff", lo), Len: x.vc.define("slen", mkSub(hi, lo)), Cap: x.vc.define("scap", mkSub(intT64(n), lo)), Elem: mt, IsString: true}
		}
		if !ok || len(b.Path) != 0 {
			break
		}
		n := arrT.Len()
		back := x.arrayBacking(b.Cell, int(n), mt)
		lo = one(i.Low, intT64(0))
		hi = one(i.High, intT64(n))
		x.sideOblige("slicebounds", mkAnd(mkCmp("<=", intT64(0), lo), mkCmp("<=", lo, hi), mkCmp("<=", hi, intT64(n))))
		return &SliceV{Back: back, Off: x.vc.define("soff", lo), Len: x.vc.define("slen", mkSub(hi, lo)), Cap: x.vc.define("scap", mkSub(intT64(n), lo)), Elem: mt}
	}
	panic(unsupported(fmt.Sprintf("slice of %T", base)))
}

// arrayBacking converts a local array cell (Agg of leaves) into an SMT array cell
// so that slices of it can alias it. After conversion the cell holds Leaf{Arr}.
func (x *Exec) arrayBacking(c *Cell, n int, mt MT) *Cell {
	v := x.cur.mem[c]
	if ag, ok := v.(Agg); ok {
		arr := x.vc.fresh("arr_"+c.Name, sortArr)
		for k, e := range ag.Elems {
			x.vc.assume(mkEq(T{S: fmt.Sprintf("(select %s %d)", arr.S, k), Sort: sortInt}, e.(Leaf).T))
		}
		x.cur.mem[c] = Leaf{T: arr}
		x.arrayCells[c] = n
		x.arrayElem[c] = mt
	}
	return c
}

func (x *Exec) makeSlice(i *ssa.MakeSlice) Val {
	st := i.Type().Underlying().(*types.Slice)
	mt, ok := machineType(st.Elem())
	if !ok || x.th.Mode() != "int" {
		return Opaque{Desc: "make " + i.Type().String()}
	}
	ln := x.ev.specOf(x.leafOf(i.Len))
	cp := x.ev.specOf(x.leafOf(i.Cap))
	x.sideOblige("makeslice", mkAnd(mkCmp("<=", intT64(0), ln), mkCmp("<=", ln, cp)))
	x.ncell++
	c := &Cell{Name: "make_backing", ID: x.ncell}
	x.cur.mem[c] = Leaf{T: T{S: "emptyArr", Sort: sortArr}}
	return &SliceV{Back: c, Off: intT64(0), Len: ln, Cap: cp, Elem: mt}
}

func (x *Exec) stringEq(a, b *SliceV, neq bool) Val {
	// only comparisons against constant strings are modelled exactly
	var sym, con *SliceV
	if b.Len.C != nil {
		sym, con = a, b
	} else if a.Len.C != nil {
		sym, con = b, a
	} else {
		return x.freshVal("streq", types.Typ[types.Bool])
	}
	n := int(con.Len.C.Int64())
	parts := []T{mkEq(sym.Len, con.Len)}
	sa := x.sliceArr(sym)
	ca := x.sliceArr(con)
	for k := 0; k < n; k++ {
		parts = append(parts, mkEq(
			T{S: fmt.Sprintf("(select %s %s)", sa.S, mkAdd(sym.Off, intT64(int64(k))).S), Sort: sortInt},
			T{S: fmt.Sprintf("(select %s %s)", ca.S, mkAdd(con.Off, intT64(int64(k))).S), Sort: sortInt}))
	}
	t := mkAnd(parts...)
	if neq {
		t = mkNot(t)
	}
	return Leaf{T: x.vc.define("streq", t)}
}

// copySlice models string(b) / []byte(s): a fresh, unaliased copy with equal contents.
func (x *Exec) copySlice(s *SliceV, toString bool) Val {
	arr := x.sliceArr(s)
	n := &SliceV{Off: s.Off, Len: s.Len, Cap: s.Len, Elem: s.Elem, IsString: toString}
	if toString {
		n.Arr = arr
	} else {
		x.ncell++
		c := &Cell{Name: "conv_backing", ID: x.ncell}
		x.cur.mem[c] = Leaf{T: arr}
		n.Back = c
	}
	return n
}

func (x *Exec) appendOp(i *ssa.Call) Val {
	args := i.Call.Args
	dst, ok := x.get(args[0]).(*SliceV)
	if !ok || x.th.Mode() != "int" {
		return x.freshVal("append", i.Type())
	}
	src, ok := x.get(args[1]).(*SliceV)
	if !ok {
		return x.freshVal("append", i.Type())
	}
	// Result: a slice whose first len(dst) elements equal dst's and the next len(src) equal src's.
	// Whether it aliases dst's backing store depends on capacity; we model the result as a fresh
	// backing store when cap is exceeded and in-place otherwise.
	newLen := x.vc.define("applen", mkAdd(dst.Len, src.Len))
	fits := x.vc.define("appfits", mkCmp("<=", newLen, dst.Cap))
	x.ncell++
	nc := &Cell{Name: "append_backing", ID: x.ncell}
	res := x.vc.fresh("apparr", sortArr)
	darr := x.sliceArr(dst)
	sarr := x.sliceArr(src)
	if src.Len.C != nil && src.Len.C.IsInt64() && src.Len.C.Int64() <= 8 {
		// a small constant number of appended elements (variadic append of a few bytes): the result is
		// a store chain over a base array that agrees with dst on dst's elements (it is dst's array
		// itself when the capacity suffices) - no quantifier is needed to read the new elements
		// res agrees with dst on dst's elements (quantified over absolute indices, so that any read
		// (select res i) triggers the instance) and carries the new elements at ground indices
		kq := "k!app"
		end := mkAdd(dst.Off, dst.Len)
		x.vc.emit(fmt.Sprintf("(assert (forall ((%s Int)) (! (=> (and (<= %s %s) (< %s %s)) (= (select %s %s) (select %s %s))) :pattern ((select %s %s)))))",
			kq, dst.Off.S, kq, kq, end.S, res.S, kq, darr.S, kq, res.S, kq))
		for j := int64(0); j < src.Len.C.Int64(); j++ {
			x.vc.emit(fmt.Sprintf("(assert (= (select %s %s) (select %s %s)))", res.S, mkAdd(end, intT64(j)).S, sarr.S, mkAdd(src.Off, intT64(j)).S))
		}
	} else {
		// quantified description of contents (both cases), over absolute indices
		kq := "k!app"
		end := mkAdd(dst.Off, dst.Len)
		x.vc.emit(fmt.Sprintf("(assert (forall ((%s Int)) (! (=> (and (<= %s %s) (< %s %s)) (= (select %s %s) (ite (< %s %s) (select %s %s) (select %s (+ %s (- %s %s)))))) :pattern ((select %s %s)))))",
			kq, dst.Off.S, kq, kq, mkAdd(dst.Off, newLen).S, res.S, kq, kq, end.S, darr.S, kq, sarr.S, src.Off.S, kq, end.S, res.S, kq))
	}
	x.cur.mem[nc] = Leaf{T: res}
	if dst.Back != nil {
		// in-place case also updates dst's backing store
		old := x.cur.mem[dst.Back].(Leaf).T
		upd := x.vc.fresh("appold", sortArr)
		x.vc.assume(mkImp(fits, mkEq(upd, res)))
		x.vc.assume(mkImp(mkNot(fits), mkEq(upd, old)))
		x.cur.mem[dst.Back] = Leaf{T: upd}
	}
	ncap := x.vc.fresh("appcap", sortInt)
	x.vc.assume(mkAnd(mkCmp(">=", ncap, newLen), mkImp(fits, mkEq(ncap, dst.Cap)), mkCmp("<=", ncap, intT64(2*maxSliceLen))))
	return &SliceV{Back: nc, Off: dst.Off, Len: newLen, Cap: ncap, Elem: dst.Elem}
}

func (x *Exec) copyOp(i *ssa.Call) Val {
	args := i.Call.Args
	dst, ok1 := x.get(args[0]).(*SliceV)
	src, ok2 := x.get(args[1]).(*SliceV)
	mt := MT{64, true}
	if !ok1 || !ok2 || dst.Back == nil || x.th.Mode() != "int" {
		panic(unsupported("copy on unsupported operands"))
	}
	n := x.vc.define("copyn", mkIte(mkCmp("<", dst.Len, src.Len), dst.Len, src.Len))
	old := x.cur.mem[dst.Back].(Leaf).T
	sarr := x.sliceArr(src)
	res := x.vc.fresh("copyarr", sortArr)
	kq := "k!cp"
	x.vc.emit(fmt.Sprintf("(assert (forall ((%s Int)) (! (= (select %s %s) (ite (and (<= %s %s) (< %s (+ %s %s))) (select %s (+ %s (- %s %s))) (select %s %s))) :pattern ((select %s %s)))))",
		kq, res.S, kq, dst.Off.S, kq, kq, dst.Off.S, n.S, sarr.S, src.Off.S, kq, dst.Off.S, old.S, kq, res.S, kq))
	x.cur.mem[dst.Back] = Leaf{T: res}
	return Leaf{T: n, MT: &mt}
}

// fmtState models the methods of a fmt.State value handed to a Formatter by package fmt (trusted,
// from the fmt documentation and print.go): Flag is a pure observer of the verb's flags, Width and
// Precision are fixed for the call and, when present, lie in 0..1e6 (fmt rejects larger numbers and
// turns a negative '*' width into the '-' flag), Write reads its argument only.
func (x *Exec) fmtState(i *ssa.Call, vals []Val) (Val, bool) {
	com := i.Call
	nt, ok := com.Value.Type().(*types.Named)
	if !ok || nt.Obj().Pkg() == nil || nt.Obj().Pkg().Path() != "fmt" || nt.Obj().Name() != "State" || x.th.Mode() != "int" {
		return nil, false
	}
	mt := MT{64, true}
	switch com.Method.Name() {
	case "Flag":
		l, ok := vals[0].(Leaf)
		if !ok {
			return nil, false
		}
		x.w.noteTrusted("fmt.State.Flag", "pure observer of the flags of the verb being formatted (package fmt documentation)")
		return Leaf{T: T{S: fmt.Sprintf("(fmtFlag %s)", l.T.S), Sort: sortBool}}, true
	case "Width", "Precision":
		n := "fmtWid"
		if com.Method.Name() == "Precision" {
			n = "fmtPrec"
		}
		x.w.noteTrusted("fmt.State."+com.Method.Name(), "fixed for the call; when present between 0 and 1e6 (package fmt rejects larger numbers)")
		v := T{S: n, Sort: sortInt}
		x.vc.assumeAlways(mkAnd(mkCmp("<=", intT64(0), v), mkCmp("<=", v, intT64(1000000))))
		return Agg{Elems: []Val{Leaf{T: v, MT: &mt}, Leaf{T: T{S: "fmtHas" + n[3:], Sort: sortBool}}}}, true
	case "Write":
		x.w.noteTrusted("fmt.State.Write", "reads its argument only (io.Writer contract)")
		return x.freshVal("inv_Write", i.Type()), true
	}
	return nil, false
}
