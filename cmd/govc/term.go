package main

import (
	"fmt"
	"math/big"
	"strings"
)

// Sorts of SMT terms.
type SortKind int

const (
	SBool SortKind = iota
	SInt
	SReal
	SBV
	SArr // (Array Int Int) in INT mode, (Array (_ BitVec 64) (_ BitVec 8)) never used
)

type Sort struct {
	K SortKind
	W int // bit width for SBV
}

func (s Sort) String() string {
	switch s.K {
	case SBool:
		return "Bool"
	case SInt:
		return "Int"
	case SReal:
		return "Real"
	case SBV:
		return fmt.Sprintf("(_ BitVec %d)", s.W)
	case SArr:
		return "(Array Int Int)"
	}
	return "?"
}

var (
	sortBool = Sort{K: SBool}
	sortInt  = Sort{K: SInt}
	sortReal = Sort{K: SReal}
	sortArr  = Sort{K: SArr}
)

func sortBV(w int) Sort { return Sort{K: SBV, W: w} }

// T is an SMT term (already printed) with its sort and, if known, its
// constant integer value.
type T struct {
	S    string
	Sort Sort
	C    *big.Int // non-nil if the term is a known integer / bit-vector constant
	B    *bool    // non-nil if known boolean constant
}

func (t T) String() string { return t.S }

func (t T) IsConst() bool { return t.C != nil }

var (
	bTrue  = true
	bFalse = false
	tTrue  = T{S: "true", Sort: sortBool, B: &bTrue}
	tFalse = T{S: "false", Sort: sortBool, B: &bFalse}
)

func boolT(b bool) T {
	if b {
		return tTrue
	}
	return tFalse
}

func intLit(v *big.Int) string {
	if v.Sign() < 0 {
		return "(- " + new(big.Int).Neg(v).String() + ")"
	}
	return v.String()
}

func intT(v *big.Int) T {
	return T{S: intLit(v), Sort: sortInt, C: new(big.Int).Set(v)}
}

func intT64(v int64) T { return intT(big.NewInt(v)) }

func realOfInt(t T) T {
	if t.Sort.K == SReal {
		return t
	}
	if t.C != nil {
		if t.C.Sign() < 0 {
			return T{S: "(- " + new(big.Int).Neg(t.C).String() + ".0)", Sort: sortReal}
		}
		return T{S: t.C.String() + ".0", Sort: sortReal}
	}
	return T{S: "(to_real " + t.S + ")", Sort: sortReal}
}

func bvT(v *big.Int, w int) T {
	m := new(big.Int).Lsh(big.NewInt(1), uint(w))
	x := new(big.Int).Mod(v, m)
	return T{S: fmt.Sprintf("(_ bv%s %d)", x.String(), w), Sort: sortBV(w), C: x}
}

func pow2(n int) *big.Int { return new(big.Int).Lsh(big.NewInt(1), uint(n)) }

func app(op string, args ...T) string {
	var sb strings.Builder
	sb.WriteByte('(')
	sb.WriteString(op)
	for _, a := range args {
		sb.WriteByte(' ')
		sb.WriteString(a.S)
	}
	sb.WriteByte(')')
	return sb.String()
}

func mkNot(a T) T {
	if a.B != nil {
		return boolT(!*a.B)
	}
	if strings.HasPrefix(a.S, "(not ") {
		return T{S: a.S[5 : len(a.S)-1], Sort: sortBool}
	}
	return T{S: "(not " + a.S + ")", Sort: sortBool}
}

func mkAnd(xs ...T) T {
	var keep []T
	for _, x := range xs {
		if x.B != nil {
			if !*x.B {
				return tFalse
			}
			continue
		}
		keep = append(keep, x)
	}
	switch len(keep) {
	case 0:
		return tTrue
	case 1:
		return keep[0]
	}
	return T{S: app("and", keep...), Sort: sortBool}
}

func mkOr(xs ...T) T {
	var keep []T
	for _, x := range xs {
		if x.B != nil {
			if *x.B {
				return tTrue
			}
			continue
		}
		keep = append(keep, x)
	}
	switch len(keep) {
	case 0:
		return tFalse
	case 1:
		return keep[0]
	}
	return T{S: app("or", keep...), Sort: sortBool}
}

func mkImp(a, b T) T {
	if a.B != nil {
		if *a.B {
			return b
		}
		return tTrue
	}
	if b.B != nil && *b.B {
		return tTrue
	}
	return T{S: app("=>", a, b), Sort: sortBool}
}

func mkIte(c, a, b T) T {
	if c.B != nil {
		if *c.B {
			return a
		}
		return b
	}
	if a.S == b.S {
		return a
	}
	if a.Sort.K == SReal && b.Sort.K == SInt {
		b = realOfInt(b)
	}
	if b.Sort.K == SReal && a.Sort.K == SInt {
		a = realOfInt(a)
	}
	return T{S: app("ite", c, a, b), Sort: a.Sort}
}

func mkEq(a, b T) T {
	if a.C != nil && b.C != nil {
		return boolT(a.C.Cmp(b.C) == 0)
	}
	if a.B != nil && b.B != nil {
		return boolT(*a.B == *b.B)
	}
	if a.S == b.S {
		return tTrue
	}
	if a.Sort.K == SReal && b.Sort.K == SInt {
		b = realOfInt(b)
	}
	if b.Sort.K == SReal && a.Sort.K == SInt {
		a = realOfInt(a)
	}
	if a.Sort.K == SBool {
		if b.B != nil {
			if *b.B {
				return a
			}
			return mkNot(a)
		}
		if a.B != nil {
			if *a.B {
				return b
			}
			return mkNot(b)
		}
	}
	return T{S: app("=", a, b), Sort: sortBool}
}

// arithmetic on Int/Real sorted terms with constant folding
func numCoerce(a, b T) (T, T, Sort) {
	if a.Sort.K == SReal || b.Sort.K == SReal {
		return realOfInt(a), realOfInt(b), sortReal
	}
	return a, b, sortInt
}

func mkAdd(a, b T) T {
	if a.Sort.K == SInt && b.Sort.K == SInt {
		if a.C != nil && b.C != nil {
			return intT(new(big.Int).Add(a.C, b.C))
		}
		if a.C != nil && a.C.Sign() == 0 {
			return b
		}
		if b.C != nil && b.C.Sign() == 0 {
			return a
		}
	}
	a, b, s := numCoerce(a, b)
	return T{S: app("+", a, b), Sort: s}
}

func mkSub(a, b T) T {
	if a.Sort.K == SInt && b.Sort.K == SInt {
		if a.C != nil && b.C != nil {
			return intT(new(big.Int).Sub(a.C, b.C))
		}
		if b.C != nil && b.C.Sign() == 0 {
			return a
		}
	}
	a, b, s := numCoerce(a, b)
	return T{S: app("-", a, b), Sort: s}
}

func mkNeg(a T) T {
	if a.Sort.K == SInt && a.C != nil {
		return intT(new(big.Int).Neg(a.C))
	}
	return T{S: "(- " + a.S + ")", Sort: a.Sort}
}

func mkMul(a, b T) T {
	if a.Sort.K == SInt && b.Sort.K == SInt {
		if a.C != nil && b.C != nil {
			return intT(new(big.Int).Mul(a.C, b.C))
		}
		if a.C != nil && a.C.Sign() == 0 || b.C != nil && b.C.Sign() == 0 {
			return intT64(0)
		}
		if a.C != nil && a.C.Cmp(big.NewInt(1)) == 0 {
			return b
		}
		if b.C != nil && b.C.Cmp(big.NewInt(1)) == 0 {
			return a
		}
	}
	a, b, s := numCoerce(a, b)
	return T{S: app("*", a, b), Sort: s}
}

func mkRealDiv(a, b T) T {
	a = realOfInt(a)
	b = realOfInt(b)
	return T{S: app("/", a, b), Sort: sortReal}
}

func cmpFold(op string, a, b *big.Int) bool {
	c := a.Cmp(b)
	switch op {
	case "<":
		return c < 0
	case "<=":
		return c <= 0
	case ">":
		return c > 0
	case ">=":
		return c >= 0
	}
	panic(op)
}

func mkCmp(op string, a, b T) T {
	if a.Sort.K == SInt && b.Sort.K == SInt && a.C != nil && b.C != nil {
		return boolT(cmpFold(op, a.C, b.C))
	}
	a, b, _ = numCoerce(a, b)
	return T{S: app(op, a, b), Sort: sortBool}
}
