package main

import (
	"fmt"
	"go/ast"
	"go/constant"
	"go/token"
	"go/types"
	"math/big"
	"os"
	"sort"
	"strings"

	"golang.org/x/tools/go/ssa"
)

type unsupported string

type State struct {
	mem map[*Cell]Val
}

func (s *State) clone() *State {
	m := make(map[*Cell]Val, len(s.mem))
	for k, v := range s.mem {
		m[k] = v
	}
	return &State{mem: m}
}

type loopInfo struct {
	header  *ssa.BasicBlock
	body    map[*ssa.BasicBlock]bool
	ordinal int
	spec    *LoopSpec
	stmt    ast.Node
	mod     map[*Cell]bool
	dec0    T
	hasDec  bool
	minPos  token.Pos
	head    *State // state at the loop head after havoc (for prev())
}

type Exec struct {
	w        *World
	fn       *ssa.Function
	name     string
	contract *Contract
	th       Theory
	vc       *VC
	ev       *Evaluator

	regs      map[ssa.Value]Val
	cells     map[*ssa.Alloc]*Cell
	cellByPos map[token.Pos]*Cell
	ncell     int
	out       map[*ssa.BasicBlock]*State
	pcs       map[*ssa.BasicBlock]T
	edge      map[*ssa.BasicBlock][]T // edge condition per successor index (includes pc)
	cur       *State
	curPC     T
	curInstr  ssa.Instruction
	curBlock  *ssa.BasicBlock

	entry      map[string]Val // parameter entry values by name
	entryMem   *State         // memory at entry (for old(*p))
	logical    map[string]Val
	paramCells map[string]*Cell // pointee cells of pointer params
	globals    map[*ssa.Global]*Cell
	globalIn   map[string]T

	loops        map[*ssa.BasicBlock]*loopInfo
	backEdge     map[[2]*ssa.BasicBlock]bool
	kindCount    map[string]int
	callCount    map[string]int
	rsTerms      [][2]T
	splitVal     *int
	splitDone    bool
	splitRange   bool
	decTerms     [][2]T
	beTerms      [][3]T
	foldTerms    []foldApp
	suffix       string
	srcLines     map[string][]string
	usedWaivers  map[*Waiver]bool
	warnings     []string
	retCount     int
	oldMem       *State // memory snapshot used for old(*p) while evaluating a callee contract
	cutsDone     map[*CutSpec]bool
	cutFacts     []int
	mergeStates  []*State
	limited      bool
	assertsDone  map[*AssertSpec]bool
	onlyLine     int
	callArgsDone map[*CallArgSpec]bool
	ghostCells   map[string]*Cell
	ghostDone    map[*GhostSet]bool
	appliesDone  map[*ApplySpec]bool
	callRes      map[string]Val // callres_<Callee>_<ordinal>: the value returned by that call (readable in later clauses)
	arrayCells   map[*Cell]int
	arrayElem    map[*Cell]MT
}

func (x *Exec) VC() *VC { return x.vc }

func (x *Exec) posString(p token.Pos) string {
	if !p.IsValid() {
		return ""
	}
	pp := x.w.fset.Position(p)
	return fmt.Sprintf("%s:%d", shortFile(pp.Filename), pp.Line)
}

func shortFile(f string) string {
	if i := strings.LastIndex(f, "/"); i >= 0 {
		return f[i+1:]
	}
	return f
}

func (x *Exec) lineText(p token.Pos) string {
	if !p.IsValid() {
		return ""
	}
	pp := x.w.fset.Position(p)
	lines, ok := x.srcLines[pp.Filename]
	if !ok {
		data, err := os.ReadFile(pp.Filename)
		if err == nil {
			lines = strings.Split(string(data), "\n")
		}
		x.srcLines[pp.Filename] = lines
	}
	if pp.Line-1 < len(lines) && pp.Line >= 1 {
		return lines[pp.Line-1]
	}
	return ""
}

func (x *Exec) instrPos() token.Pos {
	if x.curInstr == nil {
		return token.NoPos
	}
	p := x.curInstr.Pos()
	if p.IsValid() {
		return p
	}
	// look at operands for a position
	for _, op := range x.curInstr.Operands(nil) {
		if *op != nil {
			if ins, ok := (*op).(ssa.Instruction); ok && ins.Pos().IsValid() {
				return ins.Pos()
			}
		}
	}
	return token.NoPos
}

func (x *Exec) relLine(p token.Pos) int {
	if !p.IsValid() {
		return 0
	}
	return x.w.fset.Position(p).Line - x.w.fset.Position(x.fn.Pos()).Line
}

func (x *Exec) sideOblige(kind string, goal T) bool {
	pos := x.instrPos()
	if x.contract != nil {
		text := x.lineText(pos)
		for _, wv := range x.contract.Waivers {
			if wv.Kind == kind && (wv.Text == "" || strings.Contains(text, wv.Text)) {
				x.usedWaivers[wv] = true
				return true
			}
		}
	}
	if goal.B != nil && *goal.B {
		return false
	}
	key := fmt.Sprintf("%s@+%d", kind, x.relLine(pos))
	x.kindCount[key]++
	id := fmt.Sprintf("safety/%s.%d%s", key, x.kindCount[key], x.suffix)
	o := x.vc.oblige(id, kind, x.curPC, goal, strings.TrimSpace(x.lineText(pos)), x.posString(pos))
	o.Inputs = x.vc.Inputs
	x.attachAxioms(o)
	return false
}

func (x *Exec) oblige(id, kind string, pc, goal T, note string, pos token.Pos) *Obligation {
	o := x.vc.oblige(id+x.suffix, kind, pc, goal, note, x.posString(pos))
	o.Inputs = x.vc.Inputs
	x.attachAxioms(o)
	return o
}

// ---------------------------------------------------------------- values

func (x *Exec) zeroVal(t types.Type) Val {
	if w := floatWidth(t); w != 0 && x.th.Mode() == "int" {
		return FloatV{Bits: intT64(0), W: w}
	}
	if k := bigKind(t); k != "" && x.th.Mode() == "int" {
		return x.bigZero(k)
	}
	if mt, ok := machineType(t); ok {
		m := mt
		return Leaf{T: x.th.Lit(big.NewInt(0), mt), MT: &m}
	}
	if isBoolType(t) {
		return Leaf{T: tFalse}
	}
	switch u := t.Underlying().(type) {
	case *types.Array:
		el := make([]Val, u.Len())
		for i := range el {
			el[i] = x.zeroVal(u.Elem())
		}
		return Agg{Elems: el}
	case *types.Struct:
		el := make([]Val, u.NumFields())
		for i := range el {
			el[i] = x.zeroVal(u.Field(i).Type())
		}
		return Agg{Elems: el}
	case *types.Slice:
		mt, ok := machineType(u.Elem())
		if !ok {
			return Opaque{Desc: "nil slice of " + u.Elem().String()}
		}
		z := x.th.SpecLit(big.NewInt(0))
		return &SliceV{Arr: T{S: "emptyArr", Sort: sortArr}, Off: z, Len: z, Cap: z, Elem: mt}
	case *types.Basic:
		if u.Info()&types.IsString != 0 {
			z := x.th.SpecLit(big.NewInt(0))
			return &SliceV{Arr: T{S: "emptyArr", Sort: sortArr}, Off: z, Len: z, Cap: z, Elem: MT{8, false}, IsString: true}
		}
		if u.Info()&types.IsFloat != 0 {
			return Opaque{Desc: "float zero"}
		}
	case *types.Pointer, *types.Interface, *types.Signature, *types.Map, *types.Chan:
		return Opaque{Desc: "nil", Tag: intT64(0)}
	}
	return Opaque{Desc: "zero " + t.String()}
}

func (x *Exec) freshVal(hint string, t types.Type) Val {
	if w := floatWidth(t); w != 0 && x.th.Mode() == "int" {
		return x.freshFloat(hint, w)
	}
	if k := bigKind(t); k != "" && x.th.Mode() == "int" {
		return x.bigFresh(hint, k)
	}
	if mt, ok := machineType(t); ok {
		m := mt
		c := x.vc.fresh(hint, x.th.Sort(mt))
		x.vc.assume(x.th.Range(c, mt))
		return Leaf{T: c, MT: &m}
	}
	if isBoolType(t) {
		return Leaf{T: x.vc.fresh(hint, sortBool)}
	}
	switch u := t.Underlying().(type) {
	case *types.Array:
		el := make([]Val, u.Len())
		for i := range el {
			el[i] = x.freshVal(fmt.Sprintf("%s_%d", hint, i), u.Elem())
		}
		return Agg{Elems: el}
	case *types.Struct:
		el := make([]Val, u.NumFields())
		for i := range el {
			el[i] = x.freshVal(hint+"_"+u.Field(i).Name(), u.Field(i).Type())
		}
		return Agg{Elems: el}
	case *types.Tuple:
		el := make([]Val, u.Len())
		for i := range el {
			el[i] = x.freshVal(fmt.Sprintf("%s_r%d", hint, i), u.At(i).Type())
		}
		return Agg{Elems: el}
	case *types.Slice:
		if mt, ok := machineType(u.Elem()); ok && x.th.Mode() == "int" {
			return x.freshSlice(hint, mt, false)
		}
	case *types.Basic:
		if u.Info()&types.IsString != 0 && x.th.Mode() == "int" {
			return x.freshSlice(hint, MT{8, false}, true)
		}
	case *types.Interface:
		tag := x.vc.fresh(hint+"_tag", sortInt)
		x.vc.assume(mkCmp(">=", tag, intT64(0)))
		return Opaque{Desc: "iface " + hint, Tag: tag}
	}
	return Opaque{Desc: "fresh " + hint + " " + t.String()}
}

const maxSliceLen = 1 << 40

func (x *Exec) freshSlice(hint string, el MT, isString bool) *SliceV {
	ln := x.vc.fresh(hint+"_len", sortInt)
	x.vc.assume(mkAnd(mkCmp("<=", intT64(0), ln), mkCmp("<=", ln, intT64(maxSliceLen))))
	s := &SliceV{Off: intT64(0), Len: ln, Cap: ln, Elem: el, IsString: isString}
	arr := x.vc.fresh(hint+"_arr", sortArr)
	if isString {
		s.Arr = arr
	} else {
		cp := x.vc.fresh(hint+"_cap", sortInt)
		x.vc.assume(mkAnd(mkCmp("<=", ln, cp), mkCmp("<=", cp, intT64(maxSliceLen))))
		s.Cap = cp
		x.ncell++
		c := &Cell{Name: hint + "_backing", ID: x.ncell}
		s.Back = c
		x.cur.mem[c] = Leaf{T: arr}
	}
	// element range facts are supplied on select (see loadElem)
	return s
}

func (x *Exec) constVal(c *ssa.Const) Val {
	t := c.Type()
	if c.Value == nil {
		return x.zeroVal(t)
	}
	if mt, ok := machineType(t); ok {
		m := mt
		v, ok := constant.Val(constant.ToInt(c.Value)).(*big.Int)
		if !ok {
			i64, ok2 := constant.Val(constant.ToInt(c.Value)).(int64)
			if !ok2 {
				panic(unsupported("constant " + c.String()))
			}
			v = big.NewInt(i64)
		}
		return Leaf{T: x.th.Lit(v, mt), MT: &m}
	}
	if isBoolType(t) {
		return Leaf{T: boolT(constant.BoolVal(c.Value))}
	}
	if isStringType(t) {
		return x.constString(constant.StringVal(c.Value))
	}
	if b, ok := t.Underlying().(*types.Basic); ok && b.Info()&types.IsFloat != 0 {
		if w := floatWidth(t); w != 0 && x.th.Mode() == "int" {
			if f, ok := floatConst(c.Value, w); ok {
				return f
			}
		}
		return Opaque{Desc: "floatconst " + c.Value.String()}
	}
	panic(unsupported("constant of type " + t.String()))
}

func (x *Exec) constString(s string) *SliceV {
	if x.th.Mode() != "int" {
		return &SliceV{Arr: T{S: "emptyArr", Sort: sortArr}, Off: intT64(0), Len: intT64(int64(len(s))), Cap: intT64(int64(len(s))), Elem: MT{8, false}, IsString: true}
	}
	arr := "emptyArr"
	for i := 0; i < len(s); i++ {
		arr = fmt.Sprintf("(store %s %d %d)", arr, i, s[i])
	}
	a := x.vc.define("str", T{S: arr, Sort: sortArr})
	n := intT64(int64(len(s)))
	return &SliceV{Arr: a, Off: intT64(0), Len: n, Cap: n, Elem: MT{8, false}, IsString: true}
}

// ---------------------------------------------------------------- memory

func (x *Exec) readPath(v Val, path []PathElem) Val {
	if len(path) == 0 {
		return v
	}
	if l, isArr := v.(Leaf); isArr && l.T.Sort.K == SArr && len(path) == 1 {
		idx := x.th.SpecLit(big.NewInt(int64(path[0].Const)))
		if path[0].Sym != nil {
			idx = *path[0].Sym
		}
		return x.elemLeaf(l.T, idx, MT{8, false})
	}
	ag, ok := v.(Agg)
	if !ok {
		panic(unsupported(fmt.Sprintf("path into %T", v)))
	}
	pe := path[0]
	if pe.Sym == nil {
		return x.readPath(ag.Elems[pe.Const], path[1:])
	}
	res := x.readPath(ag.Elems[len(ag.Elems)-1], path[1:])
	for i := len(ag.Elems) - 2; i >= 0; i-- {
		res = x.ev.iteVal(mkEq(*pe.Sym, x.th.SpecLit(big.NewInt(int64(i)))), x.readPath(ag.Elems[i], path[1:]), res)
	}
	return res
}

func (x *Exec) writePath(v Val, path []PathElem, nv Val) Val {
	if len(path) == 0 {
		return nv
	}
	if l, isArr := v.(Leaf); isArr && l.T.Sort.K == SArr && len(path) == 1 {
		idx := x.th.SpecLit(big.NewInt(int64(path[0].Const)))
		if path[0].Sym != nil {
			idx = *path[0].Sym
		}
		return Leaf{T: x.vc.define("arr", T{S: fmt.Sprintf("(store %s %s %s)", l.T.S, idx.S, nv.(Leaf).T.S), Sort: sortArr})}
	}
	ag, ok := v.(Agg)
	if !ok {
		panic(unsupported(fmt.Sprintf("path into %T", v)))
	}
	out := make([]Val, len(ag.Elems))
	copy(out, ag.Elems)
	pe := path[0]
	if pe.Sym == nil {
		out[pe.Const] = x.writePath(ag.Elems[pe.Const], path[1:], nv)
		return Agg{Elems: out}
	}
	for i := range out {
		upd := x.writePath(ag.Elems[i], path[1:], nv)
		out[i] = x.defineVal("wr", x.ev.iteVal(mkEq(*pe.Sym, x.th.SpecLit(big.NewInt(int64(i)))), upd, ag.Elems[i]))
	}
	return Agg{Elems: out}
}

func (x *Exec) defineVal(hint string, v Val) Val {
	switch y := v.(type) {
	case Leaf:
		y.T = x.vc.define(hint, y.T)
		return y
	case Agg:
		out := make([]Val, len(y.Elems))
		for i := range y.Elems {
			out[i] = x.defineVal(hint, y.Elems[i])
		}
		return Agg{Elems: out}
	}
	return v
}

func (x *Exec) load(p Ptr) Val {
	v, ok := x.cur.mem[p.Cell]
	if !ok {
		panic(unsupported("load from unknown cell " + p.Cell.Name))
	}
	return x.readPath(v, p.Path)
}

func (x *Exec) store(p Ptr, nv Val) {
	v, ok := x.cur.mem[p.Cell]
	if !ok {
		panic(unsupported("store to unknown cell " + p.Cell.Name))
	}
	x.cur.mem[p.Cell] = x.writePath(v, p.Path, nv)
}

// ---------------------------------------------------------------- setup

func funcKey(fn *ssa.Function) string {
	if fn.Parent() != nil {
		// closure: Parent$N as go/ssa names it, qualified like its parent
		pk := funcKey(fn.Parent())
		if i := strings.LastIndex(fn.Name(), "$"); i >= 0 {
			return pk + fn.Name()[i:]
		}
		return pk + "$" + fn.Name()
	}
	if recv := fn.Signature.Recv(); recv != nil {
		t := recv.Type()
		if p, ok := t.(*types.Pointer); ok {
			t = p.Elem()
		}
		if n, ok := t.(*types.Named); ok {
			return n.Obj().Name() + "." + fn.Name()
		}
	}
	return fn.Name()
}

func newExec(w *World, fn *ssa.Function, c *Contract, split *int) *Exec {
	mode := "int"
	if c != nil {
		mode = c.Mode
	}
	var th Theory = IntTheory{bits: map[string]bitsInfo{}}
	if mode == "bv" {
		th = BVTheory{}
	}
	x := &Exec{w: w, fn: fn, name: funcKey(fn), contract: c, th: th,
		regs: map[ssa.Value]Val{}, cells: map[*ssa.Alloc]*Cell{}, cellByPos: map[token.Pos]*Cell{},
		out: map[*ssa.BasicBlock]*State{}, pcs: map[*ssa.BasicBlock]T{}, edge: map[*ssa.BasicBlock][]T{},
		entry: map[string]Val{}, logical: map[string]Val{}, paramCells: map[string]*Cell{},
		globals: map[*ssa.Global]*Cell{}, globalIn: map[string]T{},
		loops: map[*ssa.BasicBlock]*loopInfo{}, backEdge: map[[2]*ssa.BasicBlock]bool{},
		kindCount: map[string]int{}, callCount: map[string]int{}, srcLines: map[string][]string{},
		usedWaivers: map[*Waiver]bool{}, splitVal: split,
		arrayCells: map[*Cell]int{}, arrayElem: map[*Cell]MT{}, cutsDone: map[*CutSpec]bool{}, assertsDone: map[*AssertSpec]bool{}, callArgsDone: map[*CallArgSpec]bool{}, ghostCells: map[string]*Cell{}, ghostDone: map[*GhostSet]bool{}, appliesDone: map[*ApplySpec]bool{}, callRes: map[string]Val{}}
	x.vc = newVC(x.name, mode)
	if split != nil {
		x.suffix = fmt.Sprintf("/%s=%d", c.Split.Var, *split)
	}
	x.ev = &Evaluator{th: th, vc: x.vc, pkg: w.tpkg, sigs: w.sigs[mode], folds: w.foldMap()}
	x.ev.typeTag = w.typeTag
	x.ev.onFold = func(name string, arr, off, n T) {
		for _, t := range x.foldTerms {
			if t.Name == name && t.Arr.S == arr.S && t.Off.S == off.S && t.N.S == n.S {
				return
			}
		}
		x.foldTerms = append(x.foldTerms, foldApp{name, arr, off, n})
	}
	x.ev.deref = func(p Ptr, old bool) Val {
		if old {
			st := x.entryMem
			if x.oldMem != nil {
				st = x.oldMem
			}
			v, ok := st.mem[p.Cell]
			if !ok {
				panic(evalErr("old deref of unknown cell"))
			}
			return x.readPath(v, p.Path)
		}
		return x.load(p)
	}
	x.ev.slice = func(s *SliceV, old bool) T {
		st := x.cur
		if old {
			st = x.entryMem
			if x.oldMem != nil {
				st = x.oldMem
			}
		}
		v, ok := st.mem[s.Back]
		if !ok {
			panic(evalErr("slice backing store unknown"))
		}
		return v.(Leaf).T
	}
	x.ev.onRS = func(v, e T) { x.rsTerms = append(x.rsTerms, [2]T{v, e}) }
	x.ev.onBE = func(arr, off, n T) {
		for _, t := range x.beTerms {
			if t[0].S == arr.S && t[1].S == off.S && t[2].S == n.S {
				return
			}
		}
		x.beTerms = append(x.beTerms, [3]T{arr, off, n})
	}
	x.ev.prev = func(e Expr, env *Env) Val {
		var best *loopInfo
		for _, li := range x.loops {
			if li.body[x.curBlock] && li.head != nil && (best == nil || len(li.body) < len(best.body)) {
				best = li
			}
		}
		if best == nil {
			panic(evalErr("prev() used outside a loop"))
		}
		saved := x.cur
		x.cur = best.head
		defer func() { x.cur = saved }()
		return x.ev.Eval(e, env)
	}
	x.ev.onDec = func(lo, hi T) {
		for _, d := range x.decTerms {
			if d[0].S == lo.S && d[1].S == hi.S {
				return
			}
		}
		x.decTerms = append(x.decTerms, [2]T{lo, hi})
	}
	return x
}

func (x *Exec) warn(format string, a ...interface{}) {
	x.warnings = append(x.warnings, fmt.Sprintf(format, a...))
}

func collectInputs(v Val, out *[]string) {
	switch y := v.(type) {
	case FloatV:
		if isAtom(y.Bits.S) && y.Bits.C == nil {
			*out = append(*out, y.Bits.S)
		}
	case Leaf:
		if isAtom(y.T.S) && y.T.C == nil && y.T.B == nil {
			*out = append(*out, y.T.S)
		}
	case Agg:
		for _, e := range y.Elems {
			collectInputs(e, out)
		}
	case *SliceV:
		if isAtom(y.Len.S) && y.Len.C == nil {
			*out = append(*out, y.Len.S)
		}
	}
}

// ---------------------------------------------------------------- CFG analysis

func (x *Exec) analyseCFG() []*ssa.BasicBlock {
	fn := x.fn
	// DFS for back edges and RPO
	state := map[*ssa.BasicBlock]int{}
	var post []*ssa.BasicBlock
	var dfs func(b *ssa.BasicBlock)
	dfs = func(b *ssa.BasicBlock) {
		state[b] = 1
		for _, s := range b.Succs {
			switch state[s] {
			case 0:
				dfs(s)
			case 1:
				x.backEdge[[2]*ssa.BasicBlock{b, s}] = true
			}
		}
		state[b] = 2
		post = append(post, b)
	}
	dfs(fn.Blocks[0])
	rpo := make([]*ssa.BasicBlock, len(post))
	for i, b := range post {
		rpo[len(post)-1-i] = b
	}
	// natural loops
	for be := range x.backEdge {
		h := be[1]
		li := x.loops[h]
		if li == nil {
			li = &loopInfo{header: h, body: map[*ssa.BasicBlock]bool{h: true}, mod: map[*Cell]bool{}}
			x.loops[h] = li
		}
		var stack []*ssa.BasicBlock
		if !li.body[be[0]] {
			li.body[be[0]] = true
			stack = append(stack, be[0])
		}
		for len(stack) > 0 {
			b := stack[len(stack)-1]
			stack = stack[:len(stack)-1]
			for _, p := range b.Preds {
				if state[p] == 0 {
					continue
				}
				if !li.body[p] {
					li.body[p] = true
					stack = append(stack, p)
				}
			}
		}
	}
	// order loops by source position and match with AST loops
	var ls []*loopInfo
	for _, li := range x.loops {
		li.minPos = token.Pos(1 << 60)
		for b := range li.body {
			for _, ins := range b.Instrs {
				if p := ins.Pos(); p.IsValid() && p < li.minPos {
					li.minPos = p
				}
			}
		}
		ls = append(ls, li)
	}
	sort.Slice(ls, func(i, j int) bool {
		if ls[i].minPos != ls[j].minPos {
			return ls[i].minPos < ls[j].minPos
		}
		return len(ls[i].body) > len(ls[j].body)
	})
	var astLoops []ast.Node
	if syn := fn.Syntax(); syn != nil {
		ast.Inspect(syn, func(n ast.Node) bool {
			switch n.(type) {
			case *ast.ForStmt, *ast.RangeStmt:
				astLoops = append(astLoops, n)
			case *ast.FuncLit:
				return false
			}
			return true
		})
	}
	// AST loops that never iterate (no back edge, e.g. body always breaks) have no SSA loop;
	// match greedily by containment of minPos.
	ai := 0
	for _, li := range ls {
		for ai < len(astLoops) && !(astLoops[ai].Pos() <= li.minPos && li.minPos <= astLoops[ai].End()) {
			ai++
		}
		if ai < len(astLoops) {
			li.stmt = astLoops[ai]
			li.ordinal = ai + 1
			ai++
		} else {
			li.ordinal = -1
		}
		if x.contract != nil && li.ordinal > 0 {
			li.spec = x.contract.Loops[li.ordinal]
		}
	}
	if x.contract != nil {
		for n := range x.contract.Loops {
			found := false
			for _, li := range ls {
				if li.ordinal == n {
					found = true
				}
			}
			if !found {
				panic(unsupported(fmt.Sprintf("contract names loop %d but the function has no such loop (contract-anchor-lost)", n)))
			}
		}
	}
	return rpo
}

// ---------------------------------------------------------------- name resolution

func (x *Exec) lookupVarAt(name string, pos token.Pos) (Val, bool) {
	if c := x.lookupCellAt(name, pos); c != nil {
		if v, ok := x.cur.mem[c]; ok {
			return v, true
		}
	}
	return nil, false
}

func (x *Exec) lookupCellAt(name string, pos token.Pos) *Cell {
	info := x.w.info
	syn := x.fn.Syntax()
	if syn == nil {
		return nil
	}
	var scope *types.Scope
	if fd, ok := syn.(*ast.FuncDecl); ok {
		scope = info.Scopes[fd.Type]
	}
	if scope == nil {
		return nil
	}
	inner := scope.Innermost(pos)
	if inner == nil {
		inner = scope
	}
	_, obj := inner.LookupParent(name, pos)
	if obj == nil {
		return nil
	}
	return x.cellByPos[obj.Pos()]
}

func (x *Exec) envAt(pos token.Pos) *Env {
	env := &Env{vars: map[string]Val{}}
	for k, v := range x.logical {
		env.vars[k] = v
	}
	env.lookupCur = func(name string) (Val, bool) {
		if v, ok := x.lookupVarAt(name, pos); ok {
			return v, true
		}
		if c, ok := x.ghostCells[name]; ok {
			if v, ok := x.cur.mem[c]; ok {
				return v, true
			}
		}
		if name == "DefaultRoundingMode" {
			return x.globalInput(name), true
		}
		if v, ok := x.callRes[name]; ok {
			return v, true
		}
		return nil, false
	}
	env.lookupOld = func(name string) (Val, bool) {
		v, ok := x.entry[name]
		return v, ok
	}
	env.lookupType = paramTypes(x.fn)
	env.lookupPtr = func(name string) (Ptr, bool) {
		if c := x.lookupCellAt(name, pos); c != nil && c.Typ != nil {
			if _, ok := x.cur.mem[c]; ok {
				return Ptr{Cell: c}, true
			}
		}
		return Ptr{}, false
	}
	return env
}

func (x *Exec) globalInput(name string) Val {
	t, ok := x.globalIn[name]
	mt := MT{8, false}
	if !ok {
		t = x.vc.fresh("g_"+name, x.th.Sort(mt))
		x.vc.assume(x.th.Range(t, mt))
		x.globalIn[name] = t
		x.vc.Inputs = append(x.vc.Inputs, t.S)
	}
	return Leaf{T: t, MT: &mt}
}

func (x *Exec) evalBool(c *Clause, env *Env) (t T) {
	defer func() {
		if r := recover(); r != nil {
			if ee, ok := r.(evalErr); ok {
				panic(unsupported(fmt.Sprintf("contract line %d: %s: %s", c.Line, c.Text, string(ee))))
			}
			panic(r)
		}
	}()
	return x.ev.boolOf(x.ev.Eval(c.E, env))
}

// ---------------------------------------------------------------- axiom instances for rs

var rsEqSteps = func() []int {
	var ks []int
	for k := 1; k <= 19; k++ {
		ks = append(ks, k)
	}
	return ks
}()

func allRel(t T, rel map[string]bool) bool {
	for _, m := range symRe.FindAllString(t.S, -1) {
		if !rel[m] {
			return false
		}
	}
	return true
}

func (x *Exec) attachAxioms(o *Obligation) {
	rsT := append([][2]T{}, x.rsTerms...)
	decT := append([][2]T{}, x.decTerms...)
	beT := append([][3]T{}, x.beTerms...)
	foldT := append([]foldApp{}, x.foldTerms...)
	mode := x.th.Mode()
	w := x.w
	o.Levels = 1
	if x.contract != nil {
		for _, u := range x.contract.Uses {
			if strings.HasPrefix(u, "rswide=") {
				o.Levels = 2
			}
			if strings.HasPrefix(u, "timeout=") {
				fmt.Sscanf(u[len("timeout="):], "%d", &o.TimeoutS)
			}
		}
	}
	o.ExtraFn = func(rel map[string]bool, level int) []string {
		var out []string
		var rs [][2]T
		for _, t := range rsT {
			if allRel(t[0], rel) && allRel(t[1], rel) {
				rs = append(rs, t)
			}
		}
		eq, mono := rsEqSteps, []int{0, 1, 20, 36, 40}
		var wide []int
		if x.contract != nil {
			for _, u := range x.contract.Uses {
				if strings.HasPrefix(u, "rssteps=") {
					eq = parseIntList(u[len("rssteps="):])
				}
				if strings.HasPrefix(u, "rsmono=") {
					mono = parseIntList(u[len("rsmono="):])
				}
				if level >= 1 && strings.HasPrefix(u, "rswide=") {
					wide = parseIntList(u[len("rswide="):])
				}
			}
		}
		if wide != nil {
			eq = wide
		}
		out = append(out, rsInstancesK(rs, eq, mono)...)
		var bes [][3]T
		for _, t := range beT {
			if allRel(t[0], rel) && allRel(t[1], rel) && allRel(t[2], rel) {
				bes = append(bes, t)
			}
		}
		out = append(out, beInstances(bes)...)
		var fas []foldApp
		for _, t := range foldT {
			if allRel(t.Arr, rel) && allRel(t.Off, rel) && allRel(t.N, rel) {
				fas = append(fas, t)
			}
		}
		out = append(out, w.foldInstances(fas, 2)...)
		if mode == "int" {
			for _, d := range decT {
				if allRel(d[0], rel) && allRel(d[1], rel) {
					out = append(out, w.exportedInstances(d[0], d[1])...)
				}
			}
		}
		return out
	}
}

func pow10(k int) *big.Int { return new(big.Int).Exp(big.NewInt(10), big.NewInt(int64(k)), nil) }

func rsInstances(terms [][2]T) []string {
	return rsInstancesK(terms, rsEqSteps, []int{0, 1, 20, 36, 40})
}

func parseIntList(s string) []int {
	var out []int
	for _, f := range strings.Split(s, ",") {
		var k int
		if _, err := fmt.Sscanf(strings.TrimSpace(f), "%d", &k); err == nil {
			out = append(out, k)
		}
	}
	return out
}

func rsInstancesK(terms [][2]T, eqSteps, monoSteps []int) []string {
	var out []string
	seen := map[string]bool{}
	var uniq [][2]T
	for _, t := range terms {
		k := t[0].S + "@" + t[1].S
		if !seen[k] {
			seen[k] = true
			uniq = append(uniq, t)
		}
	}
	for i, a := range uniq {
		// sign facts
		out = append(out, fmt.Sprintf("(assert (and (=> (> %s 0.0) (> (rs %s %s) 0.0)) (=> (= %s 0.0) (= (rs %s %s) 0.0)) (=> (< %s 0.0) (< (rs %s %s) 0.0))))",
			a[0].S, a[0].S, a[1].S, a[0].S, a[0].S, a[1].S, a[0].S, a[0].S, a[1].S))
		for j, b := range uniq {
			if i < j && a[0].S != b[0].S {
				// order is preserved by scaling: v1 < v2 <=> rs(v1,e) < rs(v2,e)
				out = append(out, fmt.Sprintf("(assert (=> (= %s %s) (and (= (< %s %s) (< (rs %s %s) (rs %s %s))) (= (= %s %s) (= (rs %s %s) (rs %s %s))))))",
					a[1].S, b[1].S, a[0].S, b[0].S, a[0].S, a[1].S, b[0].S, b[1].S, a[0].S, b[0].S, a[0].S, a[1].S, b[0].S, b[1].S))
			}
			if i == j || a[0].S != b[0].S {
				continue
			}
			if a[1].S == b[1].S {
				continue
			}
			// b.e = a.e + k  ==>  rs(v,a.e) = 10^k * rs(v,b.e)
			var cs []string
			for _, k := range eqSteps {
				cs = append(cs, fmt.Sprintf("(=> (= %s (+ %s %d)) (= (rs %s %s) (* %s.0 (rs %s %s))))", b[1].S, a[1].S, k, a[0].S, a[1].S, pow10(k).String(), b[0].S, b[1].S))
			}
			// monotonic (v >= 0): b.e >= a.e + k ==> rs(v,b.e)*10^k <= rs(v,a.e)
			for _, k := range monoSteps {
				cs = append(cs, fmt.Sprintf("(=> (and (>= %s 0.0) (>= %s (+ %s %d))) (<= (* %s.0 (rs %s %s)) (rs %s %s)))", a[0].S, b[1].S, a[1].S, k, pow10(k).String(), b[0].S, b[1].S, a[0].S, a[1].S))
			}
			out = append(out, "(assert (and "+strings.Join(cs, " ")+"))")
		}
	}
	return out
}

// beInstances: axioms of be(a, off, n) = sum_{k<n} a[off+k] * 256^(n-1-k) for the terms of an obligation:
// be(a,o,0) = 0; 0 <= be(a,o,n) < 2^(8n) for 0 <= n <= 32 (bytes are in 0..255);
// Horner step: n2 = n1 + 1 (same a, o) => be(a,o,n2) = 256 * be(a,o,n1) + a[o+n1];
// leading zero: o2 = o1 + 1, n2 = n1 - 1, a[o1] = 0 => be(a,o1,n1) = be(a,o2,n2).
func beInstances(terms [][3]T) []string {
	var out []string
	app3 := func(t [3]T) string { return fmt.Sprintf("(be %s %s %s)", t[0].S, t[1].S, t[2].S) }
	for i, a := range terms {
		out = append(out, fmt.Sprintf("(assert (and (=> (<= %s 0) (= %s 0)) (=> (and (<= 0 %s) (<= %s 32)) (and (<= 0 %s) (< %s (pow2 (* 8 %s)))))))",
			a[2].S, app3(a), a[2].S, a[2].S, app3(a), app3(a), a[2].S))
		for j, b := range terms {
			if i == j || a[0].S != b[0].S {
				continue
			}
			sel := func(idx string) string { return fmt.Sprintf("(select %s %s)", a[0].S, idx) }
			out = append(out, fmt.Sprintf("(assert (=> (and (= %s %s) (= %s (+ %s 1)) (>= %s 0)) (and (= %s (+ (* 256 %s) %s)) (<= 0 %s) (<= %s 255))))",
				a[1].S, b[1].S, b[2].S, a[2].S, a[2].S, app3(b), app3(a), sel(fmt.Sprintf("(+ %s %s)", a[1].S, a[2].S)), sel(fmt.Sprintf("(+ %s %s)", a[1].S, a[2].S)), sel(fmt.Sprintf("(+ %s %s)", a[1].S, a[2].S))))
			out = append(out, fmt.Sprintf("(assert (=> (and (= %s (+ %s 1)) (= %s (- %s 1)) (>= %s 1) (= %s 0)) (= %s %s)))",
				b[1].S, a[1].S, b[2].S, a[2].S, a[2].S, sel(a[1].S), app3(a), app3(b)))
		}
	}
	return out
}

// ---------------------------------------------------------------- fold specification functions

type foldApp struct {
	Name        string
	Arr, Off, N T
}

func (w *World) foldMap() map[string]*Fold {
	m := map[string]*Fold{}
	for _, f := range w.contracts.Folds {
		m[f.Name] = f
	}
	return m
}

// foldInstances unfolds every application F(a, off, n) once (and the applications at n-1 that the
// unfolding introduces, down to the given depth):
//
//	n <= 0 => F = init;   n >= 1 => F(a,off,n) = step[acc := F(a,off,n-1), c := a[off+n-1], G := G(a,off,n-1)]
func (w *World) foldInstances(apps []foldApp, depth int) []string {
	var out []string
	seen := map[string]bool{}
	folds := w.foldMap()
	th := IntTheory{}
	var unfold func(a foldApp, d int)
	unfold = func(a foldApp, d int) {
		key := a.Name + "|" + a.Arr.S + "|" + a.Off.S + "|" + a.N.S
		if seen[key] || d <= 0 {
			return
		}
		seen[key] = true
		f := folds[a.Name]
		if f == nil {
			return
		}
		app := func(name string, n T) T {
			return T{S: fmt.Sprintf("(fold_%s %s %s %s)", name, a.Arr.S, a.Off.S, n.S), Sort: sortInt}
		}
		nm1 := mkSub(a.N, intT64(1))
		c := T{S: fmt.Sprintf("(select %s %s)", a.Arr.S, mkAdd(a.Off, nm1).S), Sort: sortInt}
		ev := &Evaluator{th: th, pkg: w.tpkg, sigs: w.sigs["int"]}
		env := &Env{vars: map[string]Val{"acc": Leaf{T: app(a.Name, nm1)}, "c": Leaf{T: c}, "n": Leaf{T: a.N}}}
		for _, ff := range w.contracts.Folds {
			if ff.Name != a.Name {
				env.vars[ff.Name] = Leaf{T: app(ff.Name, nm1)}
			}
		}
		func() {
			defer func() {
				if r := recover(); r != nil {
					if ee, ok := r.(evalErr); ok {
						panic(unsupported(fmt.Sprintf("fold %s: %s", f.Name, string(ee))))
					}
					panic(r)
				}
			}()
			ini := ev.specOf(ev.Eval(f.Init.E, env))
			stp := ev.specOf(ev.Eval(f.Step.E, env))
			self := app(a.Name, a.N)
			out = append(out, fmt.Sprintf("(assert (and (=> (<= %s 0) (= %s %s)) (=> (>= %s 1) (and (= %s %s) (<= 0 %s) (<= %s 255)))))",
				a.N.S, self.S, ini.S, a.N.S, self.S, stp.S, c.S, c.S))
		}()
		deps := map[string]bool{a.Name: true}
		exprIdents(f.Step.E, deps)
		for _, ff := range w.contracts.Folds {
			if deps[ff.Name] {
				unfold(foldApp{ff.Name, a.Arr, a.Off, nm1}, d-1)
			}
		}
	}
	for _, a := range apps {
		d := depth
		if f := folds[a.Name]; f != nil {
			// a recursion on the count alone (no byte, no other fold): unfold four steps, so that scaling
			// by 10^4 is covered
			ids := map[string]bool{}
			exprIdents(f.Step.E, ids)
			alone := !ids["c"]
			for name := range folds {
				if name != a.Name && ids[name] {
					alone = false
				}
			}
			_ = alone
		}
		unfold(a, d)
	}
	return out
}

// exprIdents collects the identifiers that occur in a contract expression.
func exprIdents(e Expr, out map[string]bool) {
	switch x := e.(type) {
	case *EIdent:
		out[x.Name] = true
	case *ECall:
		for _, a := range x.Args {
			exprIdents(a, out)
		}
	case *EIndex:
		exprIdents(x.X, out)
		exprIdents(x.I, out)
	case *EField:
		exprIdents(x.X, out)
	case *EUn:
		exprIdents(x.X, out)
	case *EBin:
		exprIdents(x.L, out)
		exprIdents(x.R, out)
	case *EQuant:
		exprIdents(x.Lo, out)
		exprIdents(x.Hi, out)
		exprIdents(x.Body, out)
	case *ELet:
		exprIdents(x.Val, out)
		exprIdents(x.Body, out)
	}
}
