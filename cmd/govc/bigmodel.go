package main

import (
	"fmt"
	"os"
	"go/types"

	"golang.org/x/tools/go/ssa"
)

// Trusted model of math/big (assumed contracts on a dependency, listed in every evidence file that
// uses it): a *big.Int is a pointer to a cell holding a mathematical integer, a *big.Rat a pointer to
// a cell holding numerator and denominator (denominator >= 1). The methods used by the package are
// modelled from their documentation; results are returned in the receiver, as math/big does.

func bigKind(t types.Type) string {
	n, ok := t.(*types.Named)
	if !ok || n.Obj().Pkg() == nil || n.Obj().Pkg().Path() != "math/big" {
		return ""
	}
	switch n.Obj().Name() {
	case "Int", "Rat":
		return n.Obj().Name()
	}
	return ""
}

func (x *Exec) bigZero(kind string) Val {
	if kind == "Rat" {
		return Agg{Elems: []Val{Leaf{T: intT64(0)}, Leaf{T: intT64(1)}}}
	}
	return Leaf{T: intT64(0)}
}

func (x *Exec) bigFresh(hint, kind string) Val {
	if kind == "Rat" {
		n := x.vc.fresh(hint+"_num", sortInt)
		d := x.vc.fresh(hint+"_den", sortInt)
		x.vc.assume(mkCmp(">=", d, intT64(1)))
		return Agg{Elems: []Val{Leaf{T: n}, Leaf{T: d}}}
	}
	return Leaf{T: x.vc.fresh(hint+"_val", sortInt)}
}

func (x *Exec) bigNewCell(hint, kind string, v Val) Ptr {
	x.ncell++
	c := &Cell{Name: "big_" + hint, ID: x.ncell}
	x.cur.mem[c] = v
	return Ptr{Cell: c}
}

func absT(v T) T { return mkIte(mkCmp("<", v, intT64(0)), mkSub(intT64(0), v), v) }

// bigCall models a call into math/big; ok is false when the callee is not modelled.
func (x *Exec) bigCall(i *ssa.Call, callee *ssa.Function, vals []Val) (Val, bool) {
	name := callee.Name()
	if os.Getenv("GOVC_DEBUG") != "" {
		fmt.Fprintf(os.Stderr, "bigCall %s recv=%T %+v\n", name, vals[0], vals[0])
	}
	x.w.noteTrusted("math/big."+name, "modelled from the package documentation (mathematical integers / rationals)")
	imt := MT{64, true}
	intOf := func(v Val) (T, Ptr, bool) {
		if ps, isSet := v.(PtrSet); isSet {
			var res T
			for k := len(ps.Ptrs) - 1; k >= 0; k-- {
				l, ok := x.cur.mem[ps.Ptrs[k].Cell].(Leaf)
				if !ok {
					return T{}, Ptr{}, false
				}
				if k == len(ps.Ptrs)-1 {
					res = l.T
				} else {
					res = mkIte(ps.Conds[k], l.T, res)
				}
			}
			return x.vc.define("bigsel", res), Ptr{}, true
		}
		p, ok := v.(Ptr)
		if !ok {
			return T{}, Ptr{}, false
		}
		l, ok := x.cur.mem[p.Cell].(Leaf)
		if !ok {
			return T{}, p, false
		}
		return l.T, p, true
	}
	if callee.Signature.Recv() == nil {
		if name == "NewInt" {
			return x.bigNewCell("newint", "Int", Leaf{T: x.ev.specOf(vals[0].(Leaf))}), true
		}
		return nil, false
	}
	recvT := callee.Signature.Recv().Type()
	if pt, ok := recvT.(*types.Pointer); ok {
		recvT = pt.Elem()
	}
	kind := bigKind(recvT)
	recvSet, recvIsSet := vals[0].(PtrSet)
	recv, ok := vals[0].(Ptr)
	if (!ok && !recvIsSet) || kind == "" {
		return nil, false
	}

	if kind == "Rat" {
		readR := func(v Val) (T, T, bool) {
			ptrs, conds := []Ptr{}, []T{}
			switch pv := v.(type) {
			case Ptr:
				ptrs, conds = []Ptr{pv}, []T{tTrue}
			case PtrSet:
				ptrs, conds = pv.Ptrs, pv.Conds
			default:
				return T{}, T{}, false
			}
			var n, d T
			for k := len(ptrs) - 1; k >= 0; k-- {
				ag, ok := x.cur.mem[ptrs[k].Cell].(Agg)
				if !ok || len(ag.Elems) != 2 {
					return T{}, T{}, false
				}
				an, ad := ag.Elems[0].(Leaf).T, ag.Elems[1].(Leaf).T
				if k == len(ptrs)-1 {
					n, d = an, ad
				} else {
					n, d = mkIte(conds[k], an, n), mkIte(conds[k], ad, d)
				}
			}
			return n, d, true
		}
		num, den, ok := readR(vals[0])
		if !ok {
			return nil, false
		}
		var recvVal Val = recv
		if recvIsSet {
			recvVal = recvSet
		}
		setR := func(n, d T) {
			if recvIsSet {
				for k, p := range recvSet.Ptrs {
					old := x.cur.mem[p.Cell].(Agg)
					cond := recvSet.Conds[k]
					for j := 0; j < k; j++ {
						cond = mkAnd(cond, mkNot(recvSet.Conds[j]))
					}
					x.cur.mem[p.Cell] = Agg{Elems: []Val{Leaf{T: x.vc.define("ratupd", mkIte(cond, n, old.Elems[0].(Leaf).T))}, Leaf{T: x.vc.define("ratupd", mkIte(cond, d, old.Elems[1].(Leaf).T))}}}
				}
				return
			}
			x.cur.mem[recv.Cell] = Agg{Elems: []Val{Leaf{T: n}, Leaf{T: d}}}
		}
		switch name {
		case "SetUint64", "SetInt64":
			setR(x.ev.specOf(vals[1].(Leaf)), intT64(1))
			return recvVal, true
		case "SetInt":
			v, _, ok := intOf(vals[1])
			if !ok {
				return nil, false
			}
			setR(v, intT64(1))
			return recvVal, true
		case "SetFrac":
			a, _, ok1 := intOf(vals[1])
			b, _, ok2 := intOf(vals[2])
			if !ok1 || !ok2 {
				return nil, false
			}
			x.sideOblige("divzero", mkNot(mkEq(b, intT64(0))))
			// the value a/b with a positive denominator (not necessarily in lowest terms: the model
			// keeps the quotient, contracts compare cross products)
			setR(x.vc.define("ratn", mkIte(mkCmp("<", b, intT64(0)), mkSub(intT64(0), a), a)), x.vc.define("ratd", absT(b)))
			return recvVal, true
		case "Neg":
			on, od, ok := readR(vals[1])
			if !ok {
				return nil, false
			}
			setR(x.vc.define("ratn", mkSub(intT64(0), on)), od)
			return recvVal, true
		case "Sign":
			return Leaf{T: x.vc.define("sgn", mkIte(mkCmp("<", num, intT64(0)), intT64(-1), mkIte(mkCmp(">", num, intT64(0)), intT64(1), intT64(0)))), MT: &imt}, true
		case "Num":
			// a value equal to num/den in lowest terms is not modelled; the code only needs numerator and
			// denominator of the same fraction
			return x.bigNewCell("num", "Int", Leaf{T: num}), true
		case "Denom":
			return x.bigNewCell("den", "Int", Leaf{T: den}), true
		}
		return nil, false
	}
	v, _, ok := intOf(vals[0])
	if !ok {
		return nil, false
	}
	set := func(t T) {
		if recvIsSet {
			// conditional update of every alternative
			for k, p := range recvSet.Ptrs {
				old := x.cur.mem[p.Cell].(Leaf).T
				cond := recvSet.Conds[k]
				for j := 0; j < k; j++ {
					cond = mkAnd(cond, mkNot(recvSet.Conds[j]))
				}
				x.cur.mem[p.Cell] = Leaf{T: x.vc.define("bigupd", mkIte(cond, t, old))}
			}
			return
		}
		x.cur.mem[recv.Cell] = Leaf{T: t}
	}
	var recvVal Val = recv
	if recvIsSet {
		recvVal = recvSet
	}
	arg := func(k int) (T, bool) { t, _, ok := intOf(vals[k]); return t, ok }
	switch name {
	case "Sign":
		return Leaf{T: x.vc.define("sgn", mkIte(mkCmp("<", v, intT64(0)), intT64(-1), mkIte(mkCmp(">", v, intT64(0)), intT64(1), intT64(0)))), MT: &imt}, true
	case "BitLen":
		bl := x.vc.fresh("bitlen", sortInt)
		a := x.vc.define("bigabs", absT(v))
		pw := func(e T) T { return T{S: fmt.Sprintf("(pow2 %s)", e.S), Sort: sortInt} }
		x.vc.assume(mkAnd(mkCmp(">=", bl, intT64(0)), mkCmp("<=", bl, intT64(1<<40)),
			mkEq(mkEq(bl, intT64(0)), mkEq(a, intT64(0))),
			mkImp(mkCmp("<=", bl, intT64(256)), mkCmp("<", a, pw(bl))),
			mkImp(mkAnd(mkCmp(">=", bl, intT64(1)), mkCmp("<=", bl, intT64(257))), mkCmp(">=", a, pw(mkSub(bl, intT64(1))))),
			mkImp(mkCmp(">", bl, intT64(256)), mkCmp(">=", a, pw(intT64(256))))))
		return Leaf{T: bl, MT: &imt}, true
	case "Set":
		o, ok := arg(1)
		if !ok {
			return nil, false
		}
		set(o)
		return recvVal, true
	case "SetUint64", "SetInt64":
		set(x.ev.specOf(vals[1].(Leaf)))
		return recvVal, true
	case "Neg":
		o, ok := arg(1)
		if !ok {
			return nil, false
		}
		set(x.vc.define("bigneg", mkSub(intT64(0), o)))
		return recvVal, true
	case "Mul":
		a, ok1 := arg(1)
		b, ok2 := arg(2)
		if !ok1 || !ok2 {
			return nil, false
		}
		set(x.vc.define("bigmul", mkMul(a, b)))
		return recvVal, true
	case "Lsh":
		a, ok := arg(1)
		n, okn := vals[2].(Leaf)
		if !ok || !okn || n.T.C == nil || !n.T.C.IsInt64() || n.T.C.Int64() > 256 {
			return nil, false
		}
		set(x.vc.define("biglsh", mkMul(a, intT(pow2(int(n.T.C.Int64()))))))
		return recvVal, true
	case "Or":
		a, ok1 := arg(1)
		b, ok2 := arg(2)
		if !ok1 || !ok2 {
			return nil, false
		}
		// only the disjoint case used by the package is characterised: a multiple of 2^64 or-ed with a word
		r := x.vc.fresh("bigor", sortInt)
		div := T{S: fmt.Sprintf("(= (mod %s 18446744073709551616) 0)", a.S), Sort: sortBool}
		x.vc.assume(mkImp(mkAnd(mkCmp(">=", a, intT64(0)), div, mkCmp(">=", b, intT64(0)), mkCmp("<", b, intT(pow2(64)))), mkEq(r, mkAdd(a, b))))
		set(r)
		return recvVal, true
	case "Exp":
		// Exp(x, y, nil) = x**y for y >= 0; modelled for x = 10 through the specification function pw10
		a, ok1 := arg(1)
		b, ok2 := arg(2)
		if !ok1 || !ok2 || a.C == nil || a.C.Int64() != 10 || x.w.foldMap()["pw10"] == nil {
			return nil, false
		}
		if _, isOpq := vals[3].(Opaque); !isOpq {
			if p3, isPtr := vals[3].(Ptr); isPtr && p3.Cell != nil {
				return nil, false
			}
		}
		e := x.vc.define("bigexp", b)
		x.ev.onFold("pw10", T{S: "emptyArr", Sort: sortArr}, intT64(0), e)
		set(T{S: fmt.Sprintf("(fold_pw10 emptyArr 0 %s)", e.S), Sort: sortInt})
		return recvVal, true
	case "Quo", "QuoRem":
		a, ok1 := arg(1)
		b, ok2 := arg(2)
		if !ok1 || !ok2 {
			return nil, false
		}
		x.sideOblige("divzero", mkNot(mkEq(b, intT64(0))))
		// truncated division: a = b*q + r, |r| < |b|, r has the sign of a (or is zero)
		q := x.vc.fresh("bigq", sortInt)
		r := x.vc.fresh("bigr", sortInt)
		x.vc.assume(mkImp(mkNot(mkEq(b, intT64(0))), mkAnd(mkEq(a, mkAdd(mkMul(b, q), r)), mkCmp("<", absT(r), absT(b)),
			mkImp(mkCmp(">=", a, intT64(0)), mkCmp(">=", r, intT64(0))), mkImp(mkCmp("<=", a, intT64(0)), mkCmp("<=", r, intT64(0))))))
		set(q)
		if name == "QuoRem" {
			rp, ok := vals[3].(Ptr)
			if !ok {
				return nil, false
			}
			x.cur.mem[rp.Cell] = Leaf{T: r}
			return Agg{Elems: []Val{recvVal, rp}}, true
		}
		return recvVal, true
	case "SetBytes":
		// the big-endian value of the bytes (specification function be)
		sl, ok := vals[1].(*SliceV)
		if !ok {
			return nil, false
		}
		arr := x.sliceArr(sl)
		off := x.vc.define("beoff", sl.Off)
		n := x.vc.define("ben", sl.Len)
		x.ev.onBE(arr, off, n)
		t := T{S: fmt.Sprintf("(be %s %s %s)", arr.S, off.S, n.S), Sort: sortInt}
		x.vc.assume(mkCmp(">=", t, intT64(0)))
		set(t)
		return recvVal, true
	case "Bytes":
		// big-endian bytes of |v| without leading zero byte
		a := x.vc.define("bigabs", absT(v))
		sl := x.freshSlice("bigbytes", MT{8, false}, false)
		arr := x.sliceArr(sl)
		n := x.vc.define("ben", sl.Len)
		x.ev.onBE(arr, intT64(0), n)
		t := T{S: fmt.Sprintf("(be %s 0 %s)", arr.S, n.S), Sort: sortInt}
		first := T{S: fmt.Sprintf("(select %s 0)", arr.S), Sort: sortInt}
		var cs []T
		cs = append(cs, mkEq(t, a), mkEq(mkEq(sl.Len, intT64(0)), mkEq(a, intT64(0))), mkImp(mkCmp(">", sl.Len, intT64(0)), mkCmp(">=", first, intT64(1))))
		for k := int64(0); k <= 32; k += 8 {
			cs = append(cs, mkImp(mkCmp("<", a, intT(pow2(int(8*k)))), mkCmp("<=", sl.Len, intT64(k))))
		}
		x.vc.assume(mkAnd(cs...))
		return sl, true
	case "Bits":
		// the words of |v|, least significant first, without leading zero words (characterised up to 4 words)
		bl := x.vc.fresh("bitsn", sortInt)
		a := x.vc.define("bigabs", absT(v))
		sl := x.freshSlice("bigbits", MT{64, false}, false)
		arr := x.sliceArr(sl)
		sel := func(k int64) T { return T{S: fmt.Sprintf("(select %s %d)", arr.S, k), Sort: sortInt} }
		var cases []T
		sum := intT64(0)
		for k := int64(0); k <= 4; k++ {
			if k > 0 {
				sum = mkAdd(sum, mkMul(intT(pow2(int(64*(k-1)))), sel(k-1)))
				cases = append(cases, mkImp(mkEq(sl.Len, intT64(k)), mkAnd(mkEq(a, sum), mkCmp(">=", sel(k-1), intT64(1)))))
			} else {
				cases = append(cases, mkEq(mkEq(sl.Len, intT64(0)), mkEq(a, intT64(0))))
			}
		}
		_ = bl
		for k := int64(0); k <= 4; k++ {
			cases = append(cases, mkImp(mkCmp("<", a, intT(pow2(int(64*k)))), mkCmp("<=", sl.Len, intT64(k))))
		}
		x.vc.assume(mkAnd(cases...))
		for k := int64(0); k < 4; k++ {
			x.vc.assume(mkImp(mkCmp(">", sl.Len, intT64(k)), mkAnd(mkCmp("<=", intT64(0), sel(k)), mkCmp("<", sel(k), intT(pow2(64))))))
		}
		return sl, true
	}
	return nil, false
}
