package main

import (
	"fmt"
	"go/constant"
	"go/types"
	"math"
	"math/big"

	"golang.org/x/tools/go/ssa"
)

// Floating-point values are carried as their IEEE 754 bit pattern (an integer 0 .. 2^W-1). Nothing is
// assumed about floating-point arithmetic: the only operations with a meaning are the classification
// functions of package math (IsNaN, IsInf, Signbit, Float64bits, NaN, Inf, Copysign), comparison with
// zero, and constants; every other operation yields an unconstrained pattern.
type FloatV struct {
	Bits T
	W    int
}

func floatWidth(t types.Type) int {
	b, ok := t.Underlying().(*types.Basic)
	if !ok {
		return 0
	}
	switch b.Kind() {
	case types.Float64, types.UntypedFloat:
		return 64
	case types.Float32:
		return 32
	}
	return 0
}

func (x *Exec) freshFloat(hint string, w int) FloatV {
	c := x.vc.fresh(hint, sortInt)
	x.vc.assume(mkAnd(mkCmp("<=", intT64(0), c), mkCmp("<", c, intT(pow2(w)))))
	return FloatV{Bits: c, W: w}
}

func floatConst(v constant.Value, w int) (FloatV, bool) {
	f, _ := constant.Float64Val(constant.ToFloat(v))
	if w == 64 {
		return FloatV{Bits: intT(new(big.Int).SetUint64(math.Float64bits(f))), W: 64}, true
	}
	return FloatV{Bits: intT(new(big.Int).SetUint64(uint64(math.Float32bits(float32(f))))), W: 32}, true
}

// fields of a binary64 pattern (INT theory: div / mod by constants)
func f64exp(b T) T {
	return T{S: fmt.Sprintf("(mod (div %s 4503599627370496) 2048)", b.S), Sort: sortInt}
}
func f64man(b T) T { return T{S: fmt.Sprintf("(mod %s 4503599627370496)", b.S), Sort: sortInt} }
func f64neg(b T) T { return mkCmp(">=", b, intT(pow2(63))) }

// floatMathCall models the classification functions of package math; ok is false otherwise.
func (x *Exec) floatMathCall(callee *ssa.Function, vals []Val) (Val, bool) {
	imt := MT{64, true}
	_ = imt
	fv := func(k int) (FloatV, bool) { f, ok := vals[k].(FloatV); return f, ok && f.W == 64 }
	switch callee.Name() {
	case "IsNaN":
		f, ok := fv(0)
		if !ok {
			return nil, false
		}
		return Leaf{T: x.vc.define("isnan", mkAnd(mkEq(f64exp(f.Bits), intT64(2047)), mkNot(mkEq(f64man(f.Bits), intT64(0)))))}, true
	case "IsInf":
		f, ok := fv(0)
		s, oks := vals[1].(Leaf)
		if !ok || !oks {
			return nil, false
		}
		sg := x.ev.specOf(s)
		inf := mkAnd(mkEq(f64exp(f.Bits), intT64(2047)), mkEq(f64man(f.Bits), intT64(0)))
		return Leaf{T: x.vc.define("isinf", mkAnd(inf, mkOr(mkEq(sg, intT64(0)), mkAnd(mkCmp(">", sg, intT64(0)), mkNot(f64neg(f.Bits))), mkAnd(mkCmp("<", sg, intT64(0)), f64neg(f.Bits)))))}, true
	case "Signbit":
		f, ok := fv(0)
		if !ok {
			return nil, false
		}
		return Leaf{T: x.vc.define("fsign", f64neg(f.Bits))}, true
	case "Float64bits":
		f, ok := fv(0)
		if !ok {
			return nil, false
		}
		return Leaf{T: f.Bits, MT: &u64}, true
	case "NaN":
		return FloatV{Bits: intT(new(big.Int).SetUint64(math.Float64bits(math.NaN()))), W: 64}, true
	case "Inf":
		s, oks := vals[0].(Leaf)
		if !oks {
			return nil, false
		}
		sg := x.ev.specOf(s)
		return FloatV{Bits: x.vc.define("finf", mkIte(mkCmp(">=", sg, intT64(0)), intT(new(big.Int).SetUint64(0x7ff0000000000000)), intT(new(big.Int).SetUint64(0xfff0000000000000)))), W: 64}, true
	case "Copysign":
		a, ok1 := fv(0)
		b, ok2 := fv(1)
		if !ok1 || !ok2 {
			return nil, false
		}
		mag := T{S: fmt.Sprintf("(mod %s 9223372036854775808)", a.Bits.S), Sort: sortInt}
		return FloatV{Bits: x.vc.define("fcopysign", mkIte(f64neg(b.Bits), mkAdd(mag, intT(pow2(63))), mag)), W: 64}, true
	}
	return nil, false
}
